//! cfg(kani) child of src/debugger/command/mod.rs: symbolic commands and the `Command::read_from` stub.
#![allow(dead_code, unused_imports)]
use super::*;
use crate::symbol::verif_h::any_register;

/// Which commands the next `read_from` may yield (bit mask), how many reads are allowed, and what was read.
pub(crate) static mut ALLOWED: u32 = 0;
pub(crate) static mut READS_LEFT: u8 = 0;
pub(crate) static mut READS_DONE: u8 = 0;
/// When reads are exhausted: true = end of input (None => `quit`), false = cut the path (assume(false)).
pub(crate) static mut EOF_WHEN_EXHAUSTED: bool = false;
/// Set by harnesses whose reference model says "no pause here": asking for a command is then a violation.
pub(crate) static mut READ_FORBIDDEN: bool = false;
/// Optional concretisation of the generated command's form (one harness per form keeps symbolic execution
/// out of the other arms: a symbolic selector makes every arm of run_command feasible for the symbolic executor).
pub(crate) static mut FIX_LKIND: Option<u8> = None;
pub(crate) static mut FIX_IS_REG: Option<bool> = None;

pub(crate) const C_HELP: u32 = 1 << 0;
pub(crate) const C_STEPOVER: u32 = 1 << 1;
pub(crate) const C_STEPINTO: u32 = 1 << 2;
pub(crate) const C_STEPOUT: u32 = 1 << 3;
pub(crate) const C_CONTINUE: u32 = 1 << 4;
pub(crate) const C_REGISTERS: u32 = 1 << 5;
pub(crate) const C_PRINT: u32 = 1 << 6;
pub(crate) const C_MOVE: u32 = 1 << 7;
pub(crate) const C_GOTO: u32 = 1 << 8;
pub(crate) const C_ASSEMBLY: u32 = 1 << 9;
pub(crate) const C_EVAL: u32 = 1 << 10;
pub(crate) const C_ECHO: u32 = 1 << 11;
pub(crate) const C_RESET: u32 = 1 << 12;
pub(crate) const C_QUIT: u32 = 1 << 13;
pub(crate) const C_EXIT: u32 = 1 << 14;
pub(crate) const C_BREAKLIST: u32 = 1 << 15;
pub(crate) const C_BREAKADD: u32 = 1 << 16;
pub(crate) const C_BREAKREMOVE: u32 = 1 << 17;

/// The label name harnesses bind in the symbol table.
pub(crate) const LABEL_NAME: &str = "ab";

/// Plain-data description of a generated command, so that harness oracles can talk about it.
#[derive(Clone, Copy)]
pub(crate) struct Rec {
    pub sel: u8,
    /// location is a register (Print/Move)
    pub is_reg: bool,
    pub reg: u16,
    /// 0 absolute address, 1 PC offset, 2 label + offset
    pub lkind: u8,
    pub addr: u16,
    pub off: i16,
    pub value: u16,
    pub count: u16,
}
pub(crate) static mut LAST: Option<Rec> = None;

fn reg_of(n: u16) -> Register {
    match n {
        0 => Register::R0,
        1 => Register::R1,
        2 => Register::R2,
        3 => Register::R3,
        4 => Register::R4,
        5 => Register::R5,
        6 => Register::R6,
        _ => Register::R7,
    }
}

pub(crate) fn any_rec(mask: u32) -> Rec {
    let r = Rec {
        sel: kani::any(),
        is_reg: kani::any(),
        reg: kani::any(),
        lkind: kani::any(),
        addr: kani::any(),
        off: kani::any(),
        value: kani::any(),
        count: kani::any(),
    };
    kani::assume(r.sel < 18);
    kani::assume(mask & (1u32 << r.sel) != 0);
    kani::assume(r.reg < 8 && r.lkind < 3);
    // what the argument parser can produce: any count >= 1 (0 is clamped to 1 there: c10_count_clamp)
    kani::assume(r.count >= 1);
    r
}

fn mem_loc(r: &Rec) -> MemoryLocation<'static> {
    match r.lkind {
        0 => MemoryLocation::Address(r.addr),
        1 => MemoryLocation::PCOffset(r.off),
        _ => MemoryLocation::Label(Label { name: LABEL_NAME, offset: r.off }),
    }
}
fn loc(r: &Rec) -> Location<'static> {
    if r.is_reg {
        Location::Register(reg_of(r.reg))
    } else {
        Location::Memory(mem_loc(r))
    }
}

pub(crate) fn command_of(r: &Rec) -> Command<'static> {
    match r.sel {
        0 => Command::Help,
        1 => Command::StepOver,
        2 => Command::StepInto { count: r.count },
        3 => Command::StepOut,
        4 => Command::Continue,
        5 => Command::Registers,
        6 => Command::Print { location: loc(r) },
        7 => Command::Move { location: loc(r), value: r.value },
        8 => Command::Goto { location: mem_loc(r) },
        9 => Command::Assembly { location: mem_loc(r) },
        10 => Command::Eval { instruction: "x" },
        11 => Command::Echo { string: "x" },
        12 => Command::Reset,
        13 => Command::Quit,
        14 => Command::Exit,
        15 => Command::BreakList,
        16 => Command::BreakAdd { location: mem_loc(r) },
        _ => Command::BreakRemove { location: mem_loc(r) },
    }
}

impl<'a> Command<'a> {
    /// Stub for `Command::read_from`: the text -> command step is C14's subject; here the debugger is
    /// driven with arbitrary *parsed* commands.
    pub fn read_from_any<F>(_source: &mut CommandReader, _handle_error: F) -> Option<Self>
    where
        F: Fn(error::Command),
    {
        unsafe {
            assert!(!READ_FORBIDDEN, "debugger paused (asked for a command) without a breakpoint, HALT, bounds or step reason");
            kani::cover!(true, "a command is read");
            if READS_LEFT == 0 {
                if EOF_WHEN_EXHAUSTED {
                    READS_DONE += 1;
                    return None;
                }
                kani::assume(false);
            }
            READS_LEFT -= 1;
            READS_DONE += 1;
            let mut r = any_rec(ALLOWED);
            // a single-command mask yields a concrete selector
            if ALLOWED.count_ones() == 1 {
                r.sel = ALLOWED.trailing_zeros() as u8;
            }
            if let Some(k) = FIX_LKIND {
                r.lkind = k;
            }
            if let Some(k) = FIX_IS_REG {
                r.is_reg = k;
            }
            LAST = Some(r);
            Some(command_of(&r))
        }
    }
}

pub(crate) fn reads_done() -> u8 {
    unsafe { READS_DONE }
}
pub(crate) fn fix_form(lkind: Option<u8>, is_reg: Option<bool>) {
    unsafe {
        FIX_LKIND = lkind;
        FIX_IS_REG = is_reg;
    }
}
pub(crate) fn forbid_reads(f: bool) {
    unsafe {
        READ_FORBIDDEN = f;
    }
}
pub(crate) fn allow(mask: u32, reads: u8, eof_after: bool) {
    unsafe {
        ALLOWED = mask;
        READS_LEFT = reads;
        READS_DONE = 0;
        EOF_WHEN_EXHAUSTED = eof_after;
    }
}

pub(crate) fn last() -> Option<Rec> {
    unsafe { LAST }
}

/// re-export for harnesses outside `command` (the `reader` module is private to it)
pub(crate) fn dummy_reader() -> CommandReader {
    super::reader::verif_h::dummy_reader()
}
