//! cfg(kani) child of src/debugger/breakpoint.rs: C11 H-set.
#![allow(dead_code, unused_imports)]
use super::*;

pub(crate) fn from_vec(v: Vec<Breakpoint>) -> Breakpoints {
    Breakpoints(v)
}
pub(crate) fn addr_at(b: &Breakpoints, i: usize) -> u16 {
    b.0[i].address
}
pub(crate) fn predefined_at(b: &Breakpoints, i: usize) -> bool {
    b.0[i].is_predefined
}

/// sorted, duplicate-free list of exactly N breakpoints with symbolic addresses
macro_rules! sorted_list {
    ($n:expr) => {{
        let mut v: Vec<Breakpoint> = Vec::new();
        let mut prev: Option<u16> = None;
        let mut i = 0;
        while i < $n {
            let a: u16 = kani::any();
            if let Some(p) = prev {
                kani::assume(a > p);
            }
            prev = Some(a);
            v.push(Breakpoint { address: a, is_predefined: kani::any() });
            i += 1;
        }
        Breakpoints(v)
    }};
}
pub(crate) fn sorted_0() -> Breakpoints {
    sorted_list!(0)
}
pub(crate) fn sorted_1() -> Breakpoints {
    sorted_list!(1)
}
pub(crate) fn sorted_2() -> Breakpoints {
    sorted_list!(2)
}

fn is_sorted_unique(b: &Breakpoints) -> bool {
    let mut i = 1;
    while i < b.0.len() {
        if b.0[i - 1].address >= b.0[i].address {
            return false;
        }
        i += 1;
    }
    true
}
fn contains(b: &Breakpoints, a: u16) -> bool {
    let mut i = 0;
    while i < b.0.len() {
        if b.0[i].address == a {
            return true;
        }
        i += 1;
    }
    false
}

/// insert / remove / get from a sorted duplicate-free list of concrete length N (symbolic addresses):
/// set semantics, list stays sorted and duplicate-free, other members untouched (membership of a probe address)
macro_rules! set_harness {
    ($name:ident, $n:expr) => {
        #[kani::proof]
        #[kani::unwind(7)]
        fn $name() {
            let mut b = sorted_list!($n);
            let a: u16 = kani::any();
            let probe: u16 = kani::any();
            let had = contains(&b, a);
            let had_probe = contains(&b, probe);
            assert!(b.get(a).is_some() == had, "get disagrees with membership");
            let do_insert: bool = kani::any();
            if do_insert {
                let existed = b.insert(Breakpoint { address: a, is_predefined: false });
                assert!(existed == had, "insert reports the wrong 'already exists'");
                assert!(contains(&b, a), "inserted breakpoint missing");
                assert!(b.len() == $n + if had { 0 } else { 1 }, "insert changed the size wrongly");
                if probe != a {
                    assert!(contains(&b, probe) == had_probe, "insert disturbed another breakpoint");
                }
            } else {
                let found = b.remove(a);
                assert!(found == had, "remove reports the wrong 'found'");
                assert!(!contains(&b, a), "removed breakpoint still present");
                assert!(b.len() == $n - if had { 1 } else { 0 }, "remove changed the size wrongly");
                if probe != a {
                    assert!(contains(&b, probe) == had_probe, "remove disturbed another breakpoint");
                }
            }
            assert!(is_sorted_unique(&b), "breakpoint list no longer sorted and duplicate-free");
            kani::cover!(do_insert && !had);
            kani::cover!(!do_insert && had || $n == 0);
            core::mem::forget(b);
        }
    };
}
set_harness!(c11_set_len0, 0usize);
set_harness!(c11_set_len1, 1usize);
set_harness!(c11_set_len2, 2usize);
set_harness!(c11_set_len3, 3usize);

/// with_orig adds the origin to every address (statement index -> address), order kept
#[kani::proof]
#[kani::unwind(5)]
fn c11_with_orig() {
    let b = sorted_list!(2usize);
    let a0 = b.0[0].address;
    let a1 = b.0[1].address;
    let orig: u16 = kani::any();
    // a statement index plus the origin never leaves the 16-bit space for an image the loader accepts
    kani::assume((a1 as u32) + (orig as u32) <= 0xFFFF);
    let c = b.with_orig(orig);
    assert!(c.len() == 2 && c.0[0].address == a0 + orig && c.0[1].address == a1 + orig, ".break address is not origin + statement index");
    assert!(is_sorted_unique(&c));
    kani::cover!(orig == 0x3000 && a0 == 0);
    core::mem::forget(c);
}
