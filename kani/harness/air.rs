//! cfg(kani) child of src/air.rs: C01 H-emit (encoding), C04/C05 H-dist (bit_offs), origin word.
#![allow(dead_code, unused_imports)]
use super::*;
use crate::symbol::verif_h::{any_flag, any_register, spec_flag_bits};
use crate::verif_h::{enc_pcrel, stubs};

fn rn(r: Register) -> u16 {
    match r {
        Register::R0 => 0,
        Register::R1 => 1,
        Register::R2 => 2,
        Register::R3 => 3,
        Register::R4 => 4,
        Register::R5 => 5,
        Register::R6 => 6,
        Register::R7 => 7,
    }
}

/// low `bits` bits of a value given as the `as u8` truncation of an in-range signed operand
fn field_of_u8(v: u8, bits: u32) -> u16 {
    let x: i32 = if v >= 128 { v as i32 - 256 } else { v as i32 };
    (x.rem_euclid(1 << bits)) as u16
}
fn u8_in_signed_range(v: u8, bits: u32) -> bool {
    let x: i32 = if v >= 128 { v as i32 - 256 } else { v as i32 };
    let lim = 1 << (bits - 1);
    -lim <= x && x < lim
}

fn line_of(line: u16, stmt: AirStmt) -> AsmLine {
    AsmLine::new(line, stmt, Span::dummy())
}

// ---- ALU family: ADD, AND (register and immediate), NOT
#[kani::proof]
#[kani::unwind(7)]
#[kani::stub(alloc::fmt::format, stubs::fmt_format)]
fn c01_emit_alu() {
    let dr = any_register();
    let sr = any_register();
    let line: u16 = kani::any();
    let which: u8 = kani::any();
    let use_imm: bool = kani::any();
    let r2 = any_register();
    let imm: u8 = kani::any();
    kani::assume(u8_in_signed_range(imm, 5)); // AIR validity: what the parser produces (c04_parse_* prove that side)
    let operand = if use_imm { ImmediateOrReg::Imm5(imm) } else { ImmediateOrReg::Reg(r2) };
    let tail: u16 = if use_imm { 32 + field_of_u8(imm, 5) } else { rn(r2) };
    let (stmt, expect) = match which % 3 {
        0 => (AirStmt::Add { dest: dr, src_reg: sr, src_reg_imm: operand }, 0x1000 + rn(dr) * 512 + rn(sr) * 64 + tail),
        1 => (AirStmt::And { dest: dr, src_reg: sr, src_reg_imm: operand }, 0x5000 + rn(dr) * 512 + rn(sr) * 64 + tail),
        _ => (AirStmt::Not { dest: dr, src_reg: sr }, 0x9000 + rn(dr) * 512 + rn(sr) * 64 + 63),
    };
    let got = line_of(line, stmt).emit();
    assert!(matches!(got, Ok(w) if w == expect), "ALU statement not encoded as the ISA prescribes");
    kani::cover!(which % 3 == 0 && use_imm && imm == 0xF0);
    kani::cover!(which % 3 == 2);
}

// ---- PC-relative 9-bit family: BR*, LD, LDI, LEA, ST, STI
#[kani::proof]
#[kani::unwind(7)]
#[kani::stub(alloc::fmt::format, stubs::fmt_format)]
fn c01_emit_pcrel9() {
    let r = any_register();
    let f = any_flag();
    let line: u16 = kani::any();
    let target: u16 = kani::any();
    let which: u8 = kani::any();
    let l = Label::Ref(target);
    let (stmt, base) = match which % 6 {
        0 => (AirStmt::Branch { flag: f, dest_label: l }, spec_flag_bits(f) * 512),
        1 => (AirStmt::Load { dest: r, src_label: l }, 0x2000 + rn(r) * 512),
        2 => (AirStmt::LoadInd { dest: r, src_label: l }, 0xA000 + rn(r) * 512),
        3 => (AirStmt::LoadEAddr { dest: r, src_label: l }, 0xE000 + rn(r) * 512),
        4 => (AirStmt::Store { src_reg: r, dest_label: l }, 0x3000 + rn(r) * 512),
        _ => (AirStmt::StoreInd { src_reg: r, dest_label: l }, 0xB000 + rn(r) * 512),
    };
    let got = line_of(line, stmt).emit();
    match enc_pcrel(line, target, 9) {
        Some(field) => assert!(matches!(got, Ok(w) if w == base + field), "PC-relative field is not target - (address + 1)"),
        None => assert!(got.is_err(), "out-of-range label distance accepted"),
    }
    kani::cover!(got.is_ok() && target < line);
    kani::cover!(got.is_err());
    kani::cover!(matches!(got, Ok(w) if w & 0x1FF == 0x100)); // distance -256 exactly
}

// ---- JSR (11 bits) and CALL (10 bits)
#[kani::proof]
#[kani::unwind(7)]
#[kani::stub(alloc::fmt::format, stubs::fmt_format)]
fn c01_emit_jsr_call() {
    let line: u16 = kani::any();
    let target: u16 = kani::any();
    let call: bool = kani::any();
    let l = Label::Ref(target);
    let (stmt, base, bits) = if call {
        (AirStmt::Call { dest_label: l }, 0xDC00u16, 10)
    } else {
        (AirStmt::JumbSub { dest_label: l }, 0x4800u16, 11)
    };
    let got = line_of(line, stmt).emit();
    match enc_pcrel(line, target, bits) {
        Some(field) => assert!(matches!(got, Ok(w) if w == base + field), "JSR/CALL offset field wrong"),
        None => assert!(got.is_err(), "out-of-range JSR/CALL distance accepted"),
    }
    kani::cover!(got.is_ok() && call && target < line);
    kani::cover!(got.is_err() && !call);
}

// ---- register-only and operand-less forms
#[kani::proof]
#[kani::unwind(7)]
#[kani::stub(alloc::fmt::format, stubs::fmt_format)]
fn c01_emit_reg_forms() {
    let r = any_register();
    let line: u16 = kani::any();
    let which: u8 = kani::any();
    let (stmt, expect) = match which % 7 {
        0 => (AirStmt::Jump { src_reg: r }, 0xC000 + rn(r) * 64),
        1 => (AirStmt::JumpSubReg { src_reg: r }, 0x4000 + rn(r) * 64),
        2 => (AirStmt::Push { src_reg: r }, 0xD400 + rn(r) * 64),
        3 => (AirStmt::Pop { dest_reg: r }, 0xD000 + rn(r) * 64),
        4 => (AirStmt::Return, 0xC1C0),
        5 => (AirStmt::Interrupt, 0x8000),
        _ => (AirStmt::Rets, 0xD800),
    };
    let got = line_of(line, stmt).emit();
    assert!(matches!(got, Ok(w) if w == expect), "register-form statement not encoded as documented");
    kani::cover!(which % 7 == 2 && rn(r) == 7);
}

// ---- base+offset6 family: LDR, STR
#[kani::proof]
#[kani::unwind(7)]
#[kani::stub(alloc::fmt::format, stubs::fmt_format)]
fn c01_emit_offs6() {
    let a = any_register();
    let b = any_register();
    let line: u16 = kani::any();
    let off: u8 = kani::any();
    kani::assume(u8_in_signed_range(off, 6)); // AIR validity (parser side proven by c04_parse_offs6)
    let store: bool = kani::any();
    let (stmt, base) = if store {
        (AirStmt::StoreOffs { src_reg: a, dest_reg: b, offset: off }, 0x7000u16)
    } else {
        (AirStmt::LoadOffs { dest: a, src_reg: b, offset: off }, 0x6000u16)
    };
    let expect = base + rn(a) * 512 + rn(b) * 64 + field_of_u8(off, 6);
    let got = line_of(line, stmt).emit();
    assert!(matches!(got, Ok(w) if w == expect), "LDR/STR: offset6 spills into the base-register field or is wrong");
    kani::cover!(off >= 0xE0 && store);
    kani::cover!(off < 32 && !store);
}

// ---- TRAP and raw words
#[kani::proof]
#[kani::unwind(7)]
#[kani::stub(alloc::fmt::format, stubs::fmt_format)]
fn c01_emit_trap_raw() {
    let line: u16 = kani::any();
    let v: u8 = kani::any();
    let w: u16 = kani::any();
    let t = line_of(line, AirStmt::Trap { trap_vect: v }).emit();
    assert!(matches!(t, Ok(x) if x == 0xF000 + v as u16), "TRAP vector not in bits 7:0");
    let r = line_of(line, AirStmt::RawWord { val: RawWord(w) }).emit();
    assert!(matches!(r, Ok(x) if x == w), "data word changed by emission");
    kani::cover!(v == 0xFF && w == 0xFFFF);
}

// ---- C04/C05 H-dist: bit_offs for every (line, target, width): Ok <=> distance fits, never panics
#[kani::proof]
#[kani::unwind(7)]
#[kani::stub(alloc::fmt::format, stubs::fmt_format)]
fn c04_bit_offs() {
    let line: u16 = kani::any();
    let target: u16 = kani::any();
    let sel: u8 = kani::any();
    let bits: u32 = match sel % 3 {
        0 => 9,
        1 => 10,
        _ => 11,
    };
    let l = line_of(line, AirStmt::Return);
    let got = l.bit_offs(&Label::Ref(target), bits);
    match enc_pcrel(line, target, bits) {
        Some(field) => assert!(matches!(got, Ok(w) if w == field), "in-range distance rejected or mis-encoded"),
        None => assert!(got.is_err(), "out-of-range distance accepted (truncated)"),
    }
    kani::cover!(target.wrapping_sub(line) == 0x8000);
    kani::cover!(target.wrapping_sub(line) == 0x8001);
    kani::cover!(got.is_ok() && bits == 10);
}

// ---- origin word: set once, second set is an error, value preserved
#[kani::proof]
#[kani::unwind(3)]
#[kani::stub(alloc::fmt::format, stubs::fmt_format)]
fn c04_orig_once() {
    let a: u16 = kani::any();
    let b: u16 = kani::any();
    let mut air = Air::new("");
    assert!(air.orig().is_none());
    assert!(air.set_orig(a).is_ok());
    assert!(air.orig() == Some(a));
    assert!(air.set_orig(b).is_err(), "second .orig accepted");
    assert!(air.orig() == Some(a), "failed .orig changed the origin");
    kani::cover!(a == 0xFFFF);
}

// ---- C01/C17: add_stmt numbers statements 1, 2, 3 ... (line = index + 1)
#[kani::proof]
#[kani::unwind(5)]
fn c01_add_stmt_numbering() {
    let mut air = Air::new("");
    let n: usize = kani::any();
    kani::assume(n <= 3);
    let mut i = 0;
    while i < n {
        air.add_stmt(AirStmt::Return, Span::dummy());
        i += 1;
    }
    assert!(air.len() == n);
    if n > 0 {
        let k: usize = kani::any();
        kani::assume(k < n);
        assert!(air.get(k).line as usize == k + 1, "statement numbering is not 1-based consecutive");
    }
    kani::cover!(n == 3);
    core::mem::forget(air);
}

// ---- forward references, second half: a statement carrying Unfilled("ab") goes through the real
// backpatch (symbol table has "ab" -> lline) and emit: field = lline - line - 1, Err iff out of range.
macro_rules! backpatch_emit {
    ($name:ident, $bits:expr, |$r:ident, $l:ident| $stmt:expr, $base:expr) => {
        #[kani::proof]
        #[kani::unwind(7)]
        #[kani::stub(alloc::fmt::format, stubs::fmt_format)]
        #[kani::stub(crate::symbol::with_symbol_table, stubs::with_symbol_table)]
        fn $name() {
            let lline: u16 = kani::any();
            let line: u16 = kani::any();
            let defined: bool = kani::any();
            if defined {
                crate::symbol::verif_h::table_put("ab", lline);
            }
            let $r = any_register();
            let $l = Label::Unfilled(String::from("ab"));
            let mut a = line_of(line, $stmt);
            let bp = a.backpatch();
            if !defined {
                assert!(bp.is_err(), "reference to an undefined label accepted");
                core::mem::forget(bp);
                core::mem::forget(a);
                return;
            }
            assert!(bp.is_ok(), "reference to a defined label rejected");
            core::mem::forget(bp);
            let w = a.emit();
            match enc_pcrel(line, lline, $bits) {
                Some(field) => assert!(matches!(w, Ok(x) if x == $base + field), "forward reference not encoded as target - (address + 1)"),
                None => assert!(w.is_err(), "forward reference farther than the field allows accepted"),
            }
            kani::cover!(w.is_ok() && lline > line);
            kani::cover!(w.is_err());
            core::mem::forget(w);
            core::mem::forget(a);
        }
    };
}
backpatch_emit!(c01_backpatch_emit_br, 9u32, |r, l| AirStmt::Branch { flag: Flag::Np, dest_label: l }, 0x0A00u16 + rn(r) * 0);
backpatch_emit!(c01_backpatch_emit_ld, 9u32, |r, l| AirStmt::Load { dest: r, src_label: l }, 0x2000 + rn(r) * 512);
backpatch_emit!(c01_backpatch_emit_ldi, 9u32, |r, l| AirStmt::LoadInd { dest: r, src_label: l }, 0xA000 + rn(r) * 512);
backpatch_emit!(c01_backpatch_emit_lea, 9u32, |r, l| AirStmt::LoadEAddr { dest: r, src_label: l }, 0xE000 + rn(r) * 512);
backpatch_emit!(c01_backpatch_emit_st, 9u32, |r, l| AirStmt::Store { src_reg: r, dest_label: l }, 0x3000 + rn(r) * 512);
backpatch_emit!(c01_backpatch_emit_sti, 9u32, |r, l| AirStmt::StoreInd { src_reg: r, dest_label: l }, 0xB000 + rn(r) * 512);
backpatch_emit!(c01_backpatch_emit_jsr, 11u32, |r, l| AirStmt::JumbSub { dest_label: l }, 0x4800u16 + rn(r) * 0);
backpatch_emit!(c01_backpatch_emit_call, 10u32, |r, l| AirStmt::Call { dest_label: l }, 0xDC00u16 + rn(r) * 0);

/// negative control: LDR/STR emission against an oracle that forgets to mask the offset (the defect that was fixed):
/// must come back FAILED
#[kani::proof]
#[kani::unwind(7)]
#[kani::stub(alloc::fmt::format, stubs::fmt_format)]
fn c01_control_wrong_oracle_offs6() {
    let a = any_register();
    let b = any_register();
    let off: u8 = kani::any();
    kani::assume(u8_in_signed_range(off, 6));
    let expect = 0x6000u16 | rn(a) * 512 | rn(b) * 64 | off as u16; // unmasked: wrong for negative offsets
    let got = line_of(kani::any(), AirStmt::LoadOffs { dest: a, src_reg: b, offset: off }).emit();
    assert!(matches!(got, Ok(w) if w == expect));
}
