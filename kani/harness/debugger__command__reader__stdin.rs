//! cfg(kani) child of src/debugger/command/reader/stdin.rs: C14 H-transport.
#![allow(dead_code, unused_imports)]
use super::*;
use crate::debugger::command::reader::argument::Argument;

static mut BYTES: [u8; 4] = [0; 4];
static mut LEN: usize = 0;
static mut POS: usize = 0;

fn read_byte_from_queue(_s: &mut Stdin) -> Option<u8> {
    unsafe {
        if POS < LEN {
            let b = BYTES[POS];
            POS += 1;
            Some(b)
        } else {
            None
        }
    }
}

/// compare the two transports on the script in BYTES[..LEN]
fn compare_transports(text: &str) {
    let mut arg = Argument::from(String::from(text));
    let mut sin = Stdin::from(io::stdin());
    let mut round = 0;
    while round < 6 {
        let a = arg.read().map(|s| (s.as_ptr(), s.len()));
        let b = sin.read();
        match (a, b) {
            (None, None) => break,
            (Some((pa, la)), Some(sb)) => {
                assert!(la == sb.len(), "command differs between --command and stdin (length)");
                let sa: &[u8] = unsafe { core::slice::from_raw_parts(pa, la) };
                let mut i = 0;
                while i < la {
                    assert!(sa[i] == sb.as_bytes()[i], "command differs between --command and stdin");
                    i += 1;
                }
            }
            _ => assert!(false, "one transport ends the script earlier than the other"),
        }
        round += 1;
    }
    assert!(round < 6);
    kani::cover!(round >= 1, "script with at least one command");
    let _ = round;
    core::mem::forget(arg);
    core::mem::forget(sin);
}

/// The same script read through `--command` (Argument) and through stdin (Stdin, byte source stubbed): the
/// same sequence of command strings, then end of input on both.  Scripts: every string of exactly N bytes over
/// {letter, space, ';', newline}, all but the last byte enumerated concretely inside the harness and the last byte
/// symbolic (fully symbolic bytes make every UTF-8 decode/encode step a 4- to 5-way split on both transports:
/// thousands of paths for 2 bytes, measured as >20 min).
const ALPHA: [u8; 4] = [b'a', b' ', b';', b'\n'];
macro_rules! transport {
    ($name:ident, $n:expr, $unw:expr) => {
        #[kani::proof]
        #[kani::unwind($unw)]
        #[kani::stub(Stdin::read_byte, read_byte_from_queue)]
        fn $name() {
            let last: u8 = kani::any();
            kani::assume(last == b'a' || last == b' ' || last == b';' || last == b'\n');
            let combos: usize = if $n == 1 { 1 } else if $n == 2 { 4 } else { 16 };
            let mut c = 0;
            while c < combos {
                let mut buf = [0u8; 4];
                if $n >= 2 {
                    buf[0] = ALPHA[c % 4];
                }
                if $n >= 3 {
                    buf[1] = ALPHA[(c / 4) % 4];
                }
                buf[$n - 1] = last;
                unsafe {
                    BYTES = buf;
                    LEN = $n;
                    POS = 0;
                }
                let text: &str = unsafe { core::str::from_utf8_unchecked(&*core::ptr::addr_of!(BYTES).cast::<[u8; 4]>()).get_unchecked(..$n) };
                compare_transports(text);
                c += 1;
            }
        }
    };
}
transport!(c14_transport_len1, 1usize, 7);
transport!(c14_transport_len2, 2usize, 7);
transport!(c14_transport_len3, 3usize, 18);

#[kani::proof]
#[kani::unwind(7)]
#[kani::stub(Stdin::read_byte, read_byte_from_queue)]
fn c14_transport_multibyte() {
    // e-acute (2 bytes) before / after each of {a, ';', newline}: enumerated concretely
    let cs = [b'a', b';', b'\n'];
    let mut k = 0;
    while k < 6 {
        let c = cs[k % 3];
        let buf: [u8; 4] = if k < 3 { [c, 0xC3, 0xA9, 0] } else { [0xC3, 0xA9, c, 0] };
        unsafe {
            BYTES = buf;
            LEN = 3;
            POS = 0;
        }
        let text: &str = unsafe { core::str::from_utf8_unchecked(&*core::ptr::addr_of!(BYTES).cast::<[u8; 4]>()).get_unchecked(..3) };
        compare_transports(text);
        k += 1;
    }
}
