//! cfg(kani) child of src/debugger/command/reader/stdin.rs: C14 H-transport.
#![allow(dead_code, unused_imports)]
use super::*;
use crate::debugger::command::reader::argument::Argument;

static mut BYTES: [u8; 4] = [0; 4];
static mut LEN: usize = 0;
static mut POS: usize = 0;

fn read_byte_from_queue(_s: &mut Stdin) -> Option<u8> {
    unsafe {
        if POS < LEN {
            let b = BYTES[POS];
            POS += 1;
            Some(b)
        } else {
            None
        }
    }
}

/// The same script (every valid-UTF-8 byte string of <= 4 bytes: ASCII incl. ';' and newline, and one
/// 2-byte character) read through `--command` (Argument) and through stdin (Stdin, byte source stubbed):
/// the same sequence of command strings, then end of input on both.
#[kani::proof]
#[kani::unwind(7)]
#[kani::stub(Stdin::read_byte, read_byte_from_queue)]
fn c14_transport_equivalence() {
    let buf: [u8; 4] = kani::any();
    let n: usize = kani::any();
    kani::assume(n <= 4);
    // valid UTF-8: ASCII bytes, or the two-byte character U+00E9 (0xC3 0xA9) at a symbolic position
    let two_at: usize = kani::any();
    let mut k = 0;
    while k < 4 {
        if k < n {
            if two_at < 3 && k == two_at && k + 1 < n {
                kani::assume(buf[k] == 0xC3);
            } else if two_at < 3 && k == two_at + 1 && k < n {
                kani::assume(buf[k] == 0xA9);
            } else {
                kani::assume(buf[k] < 0x80);
            }
        }
        k += 1;
    }
    let text: &str = unsafe { core::str::from_utf8_unchecked(&buf[..n]) };
    unsafe {
        BYTES = buf;
        LEN = n;
        POS = 0;
    }
    let mut arg = Argument::from(String::from(text));
    let mut sin = Stdin::from(io::stdin());
    let mut round = 0;
    while round < 6 {
        let a = arg.read().map(|s| (s.as_ptr(), s.len()));
        let b = sin.read();
        match (a, b) {
            (None, None) => break,
            (Some((pa, la)), Some(sb)) => {
                assert!(la == sb.len(), "command differs between --command and stdin (length)");
                let sa: &[u8] = unsafe { core::slice::from_raw_parts(pa, la) };
                let mut i = 0;
                while i < la {
                    assert!(sa[i] == sb.as_bytes()[i], "command differs between --command and stdin");
                    i += 1;
                }
            }
            _ => assert!(false, "one transport ends the script earlier than the other"),
        }
        round += 1;
    }
    assert!(round < 6);
    kani::cover!(round == 3);
    kani::cover!(two_at == 1 && n == 4 && round == 2);
    core::mem::forget(arg);
    core::mem::forget(sin);
}
