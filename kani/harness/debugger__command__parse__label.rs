//! cfg(kani) child of src/debugger/command/parse/label.rs: C14 / C13 label offsets.
#![allow(dead_code, unused_imports)]
use super::*;

/// `a+xHHHH` / `a-xHHHH` with four symbolic hex digits and a symbolic sign: a label named `a` whose offset is
/// exactly the signed value when it fits 16 signed bits ([-32768, 32767]), refused otherwise -- never a different
/// offset (an offset read modulo 2^16 would name another address than the one written)
#[kani::proof]
#[kani::unwind(9)]
fn c14_label_offset_hex4() {
    let mut buf = [b'a', b'+', b'x', b'0', b'0', b'0', b'0'];
    let neg: bool = kani::any();
    if neg {
        buf[1] = b'-';
    }
    let mut k = 3;
    let mut v: i32 = 0;
    while k < 7 {
        let d: u8 = kani::any();
        kani::assume(d < 16);
        buf[k] = if d < 10 { b'0' + d } else { b'a' + (d - 10) };
        v = v * 16 + d as i32;
        k += 1;
    }
    if neg {
        v = -v;
    }
    let s: &str = unsafe { core::str::from_utf8_unchecked(&buf[..]) };
    let got = Label::try_parse(s);
    if v >= -32768 && v <= 32767 {
        match got {
            Ok(Some(ref l)) => {
                assert!(l.offset as i32 == v, "label offset is not the value written");
                assert!(l.name.len() == 1 && l.name.as_bytes()[0] == b'a', "label name is not the text before the sign");
            }
            _ => assert!(false, "label with an offset that fits 16 signed bits refused"),
        }
    } else {
        assert!(got.is_err(), "label offset beyond 16 signed bits accepted (it would denote another address)");
    }
    kani::cover!(v == 0x8000);
    kani::cover!(v == -32768);
    core::mem::forget(got);
}
