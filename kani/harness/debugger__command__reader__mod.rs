//! cfg(kani) child of src/debugger/command/reader/mod.rs
#![allow(dead_code, unused_imports)]
use super::*;

/// A reader value for harnesses in which `Command::read_from` is stubbed (its content is never consulted).
pub(crate) fn dummy_reader() -> CommandReader {
    CommandReader { argument: None, stream: Stream::Stdin(Stdin::from(io::stdin())) }
}
