//! cfg(kani) child of src/parser.rs: token-level parser harnesses (C01 H-parse, C04 H-range, C05 H-parse-total, C17 H-span).
#![allow(dead_code, unused_imports)]
use super::*;
use crate::air::AsmLine;
use crate::lexer::verif_h::{any_kind, any_token, displayable, lit_value};
use crate::symbol::verif_h::{any_flag, any_register, span_of, spec_flag_bits, table_put};
use crate::symbol::Flag;
use crate::verif_h::{enc_pcrel, fits_signed, fits_unsigned, stubs};

/// the fixed source text token spans point into (ASCII; "ab" at 0..2 is the label name used by harnesses)
pub(crate) const SRC: &str = "ab cdefg";

pub(crate) fn parser_over(toks: Vec<Token>, line: u16) -> AsmParser {
    AsmParser { src: SRC, toks: toks.into_iter().peekable(), air: Air::new(SRC), line, tok_end: 0 }
}

fn rn(r: Register) -> u16 {
    r as u16
}

pub(crate) fn lit_token(dec: bool, v: u16) -> Token {
    let kind = if dec { TokenKind::Lit(LiteralKind::Dec(v as i16)) } else { TokenKind::Lit(LiteralKind::Hex(v)) };
    Token::new(kind, span_of(3, 2))
}
pub(crate) fn reg_token(r: Register) -> Token {
    Token::new(TokenKind::Reg(r), span_of(3, 2))
}
pub(crate) fn label_token() -> Token {
    Token::new(TokenKind::Label, span_of(0, 2))
}

/// contract stub for error::parse_generic_unexpected (C05): the found token's kind must be displayable,
/// its span must lie inside the source (the real constructor formats `found.kind` and slices `src`)
pub(crate) fn generic_unexpected_contract(src: &'static str, _expected: &str, found: Token) -> miette::Report {
    // the real constructor formats `found.kind`: run the real Display impl (panics if that kind is unreachable!() there)
    let mut w = crate::lexer::verif_h::NullWriter;
    let r = core::fmt::write(&mut w, format_args!("{}", found.kind));
    assert!(r.is_ok());
    assert!(found.span.offs() + found.span.len() <= src.len(), "diagnostic span outside the source");
    miette::Report::msg("")
}

/// cheap stand-ins for the other diagnostics constructors used where diagnostics are not the subject
/// (C05 runs the real constructors): the span must lie inside the source
pub(crate) fn lit_range_contract(span: Span, src: &'static str, _bits: Bits) -> miette::Report {
    assert!(span.offs() + span.len() <= src.len(), "diagnostic span outside the source");
    miette::Report::msg("")
}
pub(crate) fn eof_contract(_src: &'static str) -> miette::Report {
    miette::Report::msg("")
}

// ------------------------------------------------------------------ C04 H-range
macro_rules! range_harness {
    ($name:ident, $bits:expr, $fits:expr) => {
        #[kani::proof]
        #[kani::unwind(7)]
        #[kani::stub(alloc::fmt::format, stubs::fmt_format)]
        fn $name() {
            let v: u16 = kani::any();
            let dec: bool = kani::any();
            let line: u16 = kani::any();
            let mut p = parser_over(vec![lit_token(dec, v)], line);
            let got = p.expect_lit($bits);
            let fits: bool = ($fits)(v);
            if fits {
                assert!(matches!(got, Ok(x) if x == v), "in-range literal rejected or changed");
            } else {
                assert!(got.is_err(), "out-of-range literal accepted");
            }
            kani::cover!(fits && v >= 0x80);
            kani::cover!(!fits);
            core::mem::forget(p);
        }
    };
}
range_harness!(c04_range_imm5, Bits::Signed(5), |v| fits_signed(v, 5));
range_harness!(c04_range_offs6, Bits::Signed(6), |v| fits_signed(v, 6));
range_harness!(c04_range_pc9, Bits::Signed(9), |v| fits_signed(v, 9));
range_harness!(c04_range_pc11, Bits::Signed(11), |v| fits_signed(v, 11));
range_harness!(c04_range_trap8, Bits::Unsigned(8), |v| fits_unsigned(v, 8));

/// .orig / 16-bit fields: every 16-bit literal fits
#[kani::proof]
#[kani::unwind(7)]
#[kani::stub(alloc::fmt::format, stubs::fmt_format)]
#[kani::stub(crate::symbol::with_symbol_table, stubs::with_symbol_table)]
#[kani::stub(crate::error::parse_generic_unexpected, generic_unexpected_contract)]
#[kani::stub(crate::error::parse_lit_range, lit_range_contract)]
#[kani::stub(crate::error::parse_eof, eof_contract)]
fn c04_range_orig16() {
    let v: u16 = kani::any();
    let dec: bool = kani::any();
    let mut p = parser_over(vec![lit_token(dec, v)], kani::any());
    let got = p.expect_lit(Bits::Unsigned(16));
    assert!(matches!(got, Ok(x) if x == v), "16-bit value rejected for a 16-bit field");
    kani::cover!(v >= 0x8000);
    core::mem::forget(p);
}

// ------------------------------------------------------------------ C01/C04 H-parse o H-emit
// One harness per mnemonic and operand form: a *symbolic* mnemonic makes symbolic execution merge the
// 20-way match in parse_instr and costs >10x (measured), so the mnemonic is a constant of each harness.
// Operand values (registers, 16-bit literals, Dec/Hex spelling, line number) stay symbolic.
macro_rules! parse_attrs {
    ($(#[$m:meta])* fn $name:ident() $body:block) => {
        #[kani::proof]
        #[kani::unwind(7)]
        #[kani::stub(alloc::fmt::format, stubs::fmt_format)]
        #[kani::stub(crate::symbol::with_symbol_table, stubs::with_symbol_table)]
        #[kani::stub(crate::error::parse_generic_unexpected, generic_unexpected_contract)]
        #[kani::stub(crate::error::parse_lit_range, lit_range_contract)]
        #[kani::stub(crate::error::parse_eof, eof_contract)]
        $(#[$m])*
        fn $name() $body
    };
}

/// emit the parsed statement and compare with the expected word (forget everything: drop glue is not the subject)
fn emit_and_compare(got: Result<AirStmt>, line: u16, expect: Option<u16>, p: AsmParser) {
    match expect {
        Some(word) => match got {
            Ok(stmt) => {
                let l = AsmLine::new(line, stmt, Span::dummy());
                let w = l.emit();
                assert!(matches!(w, Ok(x) if x == word), "operands are not encoded in their documented fields");
                core::mem::forget(w);
                core::mem::forget(l);
            }
            Err(e) => {
                core::mem::forget(e);
                assert!(false, "well-formed statement with in-range operands rejected");
            }
        },
        None => {
            assert!(got.is_err(), "statement with an out-of-range operand accepted");
            core::mem::forget(got);
        }
    }
    core::mem::forget(p);
}

macro_rules! alu_imm {
    ($name:ident, $kind:expr, $op:expr) => {
        parse_attrs! { fn $name() {
            let dr = any_register();
            let sr = any_register();
            let v: u16 = kani::any();
            let dec: bool = kani::any();
            let line: u16 = kani::any();
            let mut p = parser_over(vec![reg_token(dr), reg_token(sr), lit_token(dec, v)], line);
            let got = p.parse_instr($kind);
            let expect = if fits_signed(v, 5) { Some($op + rn(dr) * 512 + rn(sr) * 64 + 32 + (v % 32)) } else { None };
            kani::cover!(v == 0xFFF0);
            kani::cover!(v == 16);
            emit_and_compare(got, line, expect, p);
        }}
    };
}
alu_imm!(c01_pe_add_imm, InstrKind::Add, 0x1000u16);
alu_imm!(c01_pe_and_imm, InstrKind::And, 0x5000u16);

macro_rules! alu_reg {
    ($name:ident, $kind:expr, $op:expr) => {
        parse_attrs! { fn $name() {
            let dr = any_register();
            let sr = any_register();
            let r3 = any_register();
            let line: u16 = kani::any();
            let mut p = parser_over(vec![reg_token(dr), reg_token(sr), reg_token(r3)], line);
            let got = p.parse_instr($kind);
            kani::cover!(rn(dr) == 7 && rn(sr) == 0 && rn(r3) == 5);
            emit_and_compare(got, line, Some($op + rn(dr) * 512 + rn(sr) * 64 + rn(r3)), p);
        }}
    };
}
alu_reg!(c01_pe_add_reg, InstrKind::Add, 0x1000u16);
alu_reg!(c01_pe_and_reg, InstrKind::And, 0x5000u16);

macro_rules! offs6 {
    ($name:ident, $kind:expr, $op:expr) => {
        parse_attrs! { fn $name() {
            let a = any_register();
            let b = any_register();
            let v: u16 = kani::any();
            let dec: bool = kani::any();
            let line: u16 = kani::any();
            let mut p = parser_over(vec![reg_token(a), reg_token(b), lit_token(dec, v)], line);
            let got = p.parse_instr($kind);
            let expect = if fits_signed(v, 6) { Some($op + rn(a) * 512 + rn(b) * 64 + (v % 64)) } else { None };
            kani::cover!(v == 0xFFE0);
            kani::cover!(v == 32);
            emit_and_compare(got, line, expect, p);
        }}
    };
}
offs6!(c01_pe_ldr, InstrKind::Ldr, 0x6000u16);
offs6!(c01_pe_str, InstrKind::Str, 0x7000u16);

macro_rules! reg_form {
    ($name:ident, $kind:expr, |$a:ident, $b:ident| $expect:expr) => {
        parse_attrs! { fn $name() {
            let $a = any_register();
            let $b = any_register();
            let line: u16 = kani::any();
            let mut p = parser_over(vec![reg_token($a), reg_token($b)], line);
            let got = p.parse_instr($kind);
            kani::cover!(rn($a) == 7 && rn($b) == 1);
            emit_and_compare(got, line, Some($expect), p);
        }}
    };
}
reg_form!(c01_pe_not, InstrKind::Not, |a, b| 0x9000 + rn(a) * 512 + rn(b) * 64 + 63);
reg_form!(c01_pe_jmp, InstrKind::Jmp, |a, _b| 0xC000 + rn(a) * 64);
reg_form!(c01_pe_jsrr, InstrKind::Jsrr, |a, _b| 0x4000 + rn(a) * 64);
reg_form!(c01_pe_push, InstrKind::Push, |a, _b| 0xD400 + rn(a) * 64);
reg_form!(c01_pe_pop, InstrKind::Pop, |a, _b| 0xD000 + rn(a) * 64);
reg_form!(c01_pe_ret, InstrKind::Ret, |a, _b| 0xC1C0 + rn(a) * 0);
reg_form!(c01_pe_rti, InstrKind::Rti, |a, _b| 0x8000 + rn(a) * 0);
reg_form!(c01_pe_rets, InstrKind::Rets, |a, _b| 0xD800 + rn(a) * 0);

/// PC-relative forms with a *literal* offset: accepted iff the literal fits; the field of the emitted
/// word equals the literal (mod 2^n), i.e. target = own address + 1 + literal, for every line number.
macro_rules! pcrel_lit {
    ($name:ident, $kind:expr, $bits:expr, $has_reg:expr, |$r:ident| $base:expr) => {
        parse_attrs! { fn $name() {
            let $r = any_register();
            let v: u16 = kani::any();
            let dec: bool = kani::any();
            let line: u16 = kani::any();
            let toks = if $has_reg { vec![reg_token($r), lit_token(dec, v)] } else { vec![lit_token(dec, v)] };
            let mut p = parser_over(toks, line);
            let got = p.parse_instr($kind);
            let expect = if fits_signed(v, $bits) { Some($base + (v % (1u16 << $bits))) } else { None };
            kani::cover!(fits_signed(v, $bits) && v >= 0x8000 && line == 1); // `br #-2` on line 1
            kani::cover!(fits_signed(v, $bits) && line == 0xFFFF);
            emit_and_compare(got, line, expect, p);
        }}
    };
}
pcrel_lit!(c01_pe_br_lit, InstrKind::Br(Flag::Nzp), 9u32, false, |r| 0x0E00u16 + rn(r) * 0);
pcrel_lit!(c01_pe_brn_lit, InstrKind::Br(Flag::N), 9u32, false, |r| 0x0800u16 + rn(r) * 0);
pcrel_lit!(c01_pe_ld_lit, InstrKind::Ld, 9u32, true, |r| 0x2000 + rn(r) * 512);
pcrel_lit!(c01_pe_ldi_lit, InstrKind::Ldi, 9u32, true, |r| 0xA000 + rn(r) * 512);
pcrel_lit!(c01_pe_lea_lit, InstrKind::Lea, 9u32, true, |r| 0xE000 + rn(r) * 512);
pcrel_lit!(c01_pe_st_lit, InstrKind::St, 9u32, true, |r| 0x3000 + rn(r) * 512);
pcrel_lit!(c01_pe_sti_lit, InstrKind::Sti, 9u32, true, |r| 0xB000 + rn(r) * 512);
pcrel_lit!(c01_pe_jsr_lit, InstrKind::Jsr, 11u32, false, |r| 0x4800u16 + rn(r) * 0);

/// PC-relative forms with a *label* operand: parse -> real backpatch -> emit.  The definition of the label
/// comes before the reference (WHEN = 0), after it (1: forward reference, filled by backpatch) or never (2).
/// The field must be (label line - own line - 1); Err iff it does not fit or the label is never defined.
/// The three placements are separate harnesses (a symbolic placement multiplies the heap states: out of memory).
macro_rules! pcrel_label {
    ($name:ident, $kind:expr, $bits:expr, $has_reg:expr, $when:expr, |$r:ident| $base:expr) => {
        parse_attrs! { fn $name() {
            let lline: u16 = kani::any();
            if $when == 0 {
                table_put("ab", lline);
            }
            let $r = any_register();
            let line: u16 = kani::any();
            let toks = if $has_reg { vec![reg_token($r), label_token()] } else { vec![label_token()] };
            let mut p = parser_over(toks, line);
            let got = p.parse_instr($kind);
            core::mem::forget(p);
            let stmt = match got {
                Ok(s) => s,
                Err(e) => {
                    core::mem::forget(e);
                    assert!(false, "label operand rejected");
                    return;
                }
            };
            if $when == 1 {
                table_put("ab", lline);
            }
            let mut l = AsmLine::new(line, stmt, Span::dummy());
            let bp = l.backpatch();
            kani::cover!(lline == 5 && line == 9, "backpatch reached with unconstrained lines");
            if $when == 2 {
                assert!(bp.is_err(), "reference to an undefined label accepted");
                core::mem::forget(bp);
                core::mem::forget(l);
                return;
            }
            assert!(bp.is_ok(), "reference to a defined label rejected");
            core::mem::forget(bp);
            let w = l.emit();
            match enc_pcrel(line, lline, $bits) {
                Some(field) => assert!(matches!(w, Ok(x) if x == $base + field), "label reference not encoded as target - (address + 1)"),
                None => assert!(w.is_err(), "label reference farther than the field allows accepted"),
            }
            kani::cover!(w.is_ok() && lline > line);
            kani::cover!(w.is_ok() && lline == line); // label on the referencing statement itself
            kani::cover!(w.is_err());
            core::mem::forget(w);
            core::mem::forget(l);
        }}
    };
}
pcrel_label!(c01_pe_br_label_before, InstrKind::Br(Flag::Zp), 9u32, false, 0, |r| 0x0600u16 + rn(r) * 0);
pcrel_label!(c01_pe_br_label_never, InstrKind::Br(Flag::Zp), 9u32, false, 2, |r| 0x0600u16 + rn(r) * 0);
pcrel_label!(c01_pe_ld_label_before, InstrKind::Ld, 9u32, true, 0, |r| 0x2000 + rn(r) * 512);
pcrel_label!(c01_pe_lea_label_before, InstrKind::Lea, 9u32, true, 0, |r| 0xE000 + rn(r) * 512);
pcrel_label!(c01_pe_sti_label_before, InstrKind::Sti, 9u32, true, 0, |r| 0xB000 + rn(r) * 512);
pcrel_label!(c01_pe_jsr_label_before, InstrKind::Jsr, 11u32, false, 0, |r| 0x4800u16 + rn(r) * 0);
pcrel_label!(c01_pe_call_label_before, InstrKind::Call, 10u32, false, 0, |r| 0xDC00u16 + rn(r) * 0);
pcrel_label!(c01_pe_call_label_never, InstrKind::Call, 10u32, false, 2, |r| 0xDC00u16 + rn(r) * 0);

/// Forward references, first half: a label operand that is not (yet) defined is carried as the *name as
/// written in the source*; the second half (real backpatch + emit from such a statement) is
/// air::verif_h::c01_backpatch_emit_*.  (The chained version ran CBMC out of memory.)
macro_rules! label_unfilled {
    ($name:ident, $kind:expr, $has_reg:expr) => {
        parse_attrs! { fn $name() {
            let r = any_register();
            let line: u16 = kani::any();
            let toks = if $has_reg { vec![reg_token(r), label_token()] } else { vec![label_token()] };
            let mut p = parser_over(toks, line);
            let got = p.parse_instr($kind);
            core::mem::forget(p);
            let lab = match got {
                Ok(AirStmt::Branch { dest_label, .. }) => dest_label,
                Ok(AirStmt::Load { dest, src_label }) => { assert!(dest == r); src_label }
                Ok(AirStmt::LoadInd { dest, src_label }) => { assert!(dest == r); src_label }
                Ok(AirStmt::LoadEAddr { dest, src_label }) => { assert!(dest == r); src_label }
                Ok(AirStmt::Store { src_reg, dest_label }) => { assert!(src_reg == r); dest_label }
                Ok(AirStmt::StoreInd { src_reg, dest_label }) => { assert!(src_reg == r); dest_label }
                Ok(AirStmt::JumbSub { dest_label }) => dest_label,
                Ok(AirStmt::Call { dest_label }) => dest_label,
                Ok(other) => { core::mem::forget(other); assert!(false, "wrong statement kind"); return; }
                Err(e) => { core::mem::forget(e); assert!(false, "forward label reference rejected"); return; }
            };
            match lab {
                Label::Unfilled(name) => {
                    assert!(name.len() == 2 && name.as_bytes()[0] == b'a' && name.as_bytes()[1] == b'b', "forward reference does not carry the label's source text");
                    kani::cover!(line == 0xFFFF);
                    core::mem::forget(name);
                }
                Label::Ref(_) => assert!(false, "undefined label resolved at parse time"),
            }
        }}
    };
}
label_unfilled!(c01_pe_br_label_fwd, InstrKind::Br(Flag::P), false);
label_unfilled!(c01_pe_ld_label_fwd, InstrKind::Ld, true);
label_unfilled!(c01_pe_ldi_label_fwd, InstrKind::Ldi, true);
label_unfilled!(c01_pe_lea_label_fwd, InstrKind::Lea, true);
label_unfilled!(c01_pe_st_label_fwd, InstrKind::St, true);
label_unfilled!(c01_pe_sti_label_fwd, InstrKind::Sti, true);
label_unfilled!(c01_pe_jsr_label_fwd, InstrKind::Jsr, false);
label_unfilled!(c01_pe_call_label_fwd, InstrKind::Call, false);

/// traps: named traps map to their documented vectors, TRAP takes any 8-bit vector
parse_attrs! { fn c01_pe_trap() {
    let v: u16 = kani::any();
    let dec: bool = kani::any();
    let line: u16 = kani::any();
    let k = crate::symbol::verif_h::any_trap_kind();
    let expect: Option<u16> = match k {
        TrapKind::Generic => if fits_unsigned(v, 8) { Some(0xF000 + v) } else { None },
        TrapKind::Getc => Some(0xF020),
        TrapKind::Out => Some(0xF021),
        TrapKind::Puts => Some(0xF022),
        TrapKind::In => Some(0xF023),
        TrapKind::Putsp => Some(0xF024),
        TrapKind::Halt => Some(0xF025),
        TrapKind::Putn => Some(0xF026),
        TrapKind::Reg => Some(0xF027),
    };
    let mut p = parser_over(vec![lit_token(dec, v)], line);
    let got = p.parse_trap(k);
    kani::cover!(matches!(k, TrapKind::Generic) && v == 0xFF);
    kani::cover!(matches!(k, TrapKind::Generic) && v == 0x100);
    emit_and_compare(got, line, expect, p);
}}

// ------------------------------------------------------------------ support for C15 (eval)
/// tokens the stubbed `AsmParser::new_simple` hands to the parser (the lexing of the eval text is C05's subject)
pub(crate) static mut SIMPLE_TOKS: Option<Vec<Token>> = None;
pub(crate) fn set_simple_tokens(v: Vec<Token>) {
    unsafe {
        SIMPLE_TOKS = Some(v);
    }
}
pub(crate) fn new_simple_from_tokens(_src: &'static str) -> Result<AsmParser> {
    #[allow(static_mut_refs)]
    let toks = unsafe { SIMPLE_TOKS.take().unwrap() };
    Ok(parser_over(toks, 1))
}
pub(crate) fn instr_token(k: InstrKind) -> Token {
    Token::new(TokenKind::Instr(k), span_of(3, 2))
}
pub(crate) fn trap_token(k: TrapKind) -> Token {
    Token::new(TokenKind::Trap(k), span_of(3, 2))
}

// ------------------------------------------------------------------ C05 H-parse-total
// parse_instr / parse_trap on up to 3 operand tokens of *any* kind a preprocessed stream can contain (incl.
// Byte, Breakpoint, .orig, string literals), arbitrary line, spans anywhere inside the source: no panic, no
// overflow, no unreachable!; accepted only with the documented operand kinds.  The diagnostics constructor
// is replaced by its contract (kind displayable -- decided for every kind by lexer::c05_display_all_kinds --
// and span inside the source).
/// exactly `n` (concrete) operand tokens of any kind
fn any_operands(n: usize) -> Vec<Token> {
    let mut v = Vec::new();
    let mut i = 0;
    while i < n {
        let t = any_token(SRC.len());
        // data directives other than .orig never survive preprocessing as Dir tokens
        kani::assume(!matches!(t.kind, TokenKind::Dir(d) if d != DirKind::Orig));
        v.push(t);
        i += 1;
    }
    v
}

macro_rules! parse_total {
    ($name:ident, $kind:expr, $nops:expr) => {
        parse_attrs! { fn $name() {
            let toks = any_operands($nops);
            let line: u16 = kani::any();
            let mut p = parser_over(toks, line);
            let got = p.parse_instr($kind);
            kani::cover!(got.is_err() || $nops >= 2 || got.is_ok());
            kani::cover!(got.is_err());
            core::mem::forget(got);
            core::mem::forget(p);
        }}
    };
}
// one harness per mnemonic and per number of operand tokens present (fewer than needed = missing operands)
parse_total!(c05_parse_total_add_3, InstrKind::Add, 3);
parse_total!(c05_parse_total_add_1, InstrKind::Add, 1);
parse_total!(c05_parse_total_ldr_3, InstrKind::Ldr, 3);
parse_total!(c05_parse_total_not_2, InstrKind::Not, 2);
parse_total!(c05_parse_total_not_0, InstrKind::Not, 0);
parse_total!(c05_parse_total_br_1, InstrKind::Br(Flag::Nzp), 1);
parse_total!(c05_parse_total_ld_2, InstrKind::Ld, 2);
parse_total!(c05_parse_total_jsr_1, InstrKind::Jsr, 1);
parse_total!(c05_parse_total_call_1, InstrKind::Call, 1);
parse_total!(c05_parse_total_jmp_1, InstrKind::Jmp, 1);

parse_attrs! { fn c05_parse_total_trap() {
    let toks = any_operands(1);
    let line: u16 = kani::any();
    let k = crate::symbol::verif_h::any_trap_kind();
    let mut p = parser_over(toks, line);
    let got = p.parse_trap(k);
    kani::cover!(got.is_ok());
    kani::cover!(got.is_err());
    core::mem::forget(got);
    core::mem::forget(p);
}}

// ---- parse()'s own loop: statement starts of any kind, line counter, .orig, .break, labels.
// parse_instr / parse_trap are replaced by their contract (any result; consume nothing) -- they are decided above.
impl AsmParser {
    fn parse_instr_any(&mut self, _kind: InstrKind) -> Result<AirStmt> {
        if kani::any() {
            Ok(AirStmt::Return)
        } else {
            Err(miette::Report::msg(""))
        }
    }
    fn parse_trap_any(&mut self, _kind: TrapKind) -> Result<AirStmt> {
        if kani::any() {
            Ok(AirStmt::Trap { trap_vect: kani::any() })
        } else {
            Err(miette::Report::msg(""))
        }
    }
}

fn dup_label_contract(span: Span, src: &'static str) -> miette::Report {
    assert!(span.offs() + span.len() <= src.len(), "diagnostic span outside the source");
    miette::Report::msg("")
}

/// exactly N (concrete) tokens of any kind, any starting line number (so the 65,535-statement cases are decided
/// without unrolling 65,535 iterations): parse() returns Ok or Err, never panics; Ok => statements numbered from 1,
/// .break before the first statement marks statement 0, spans inside the source
macro_rules! parse_loop {
    ($name:ident, $n:expr) => {
        #[kani::proof]
        #[kani::unwind(6)]
        #[kani::stub(alloc::fmt::format, stubs::fmt_format)]
        #[kani::stub(crate::symbol::with_symbol_table, stubs::with_symbol_table)]
        #[kani::stub(crate::error::parse_generic_unexpected, generic_unexpected_contract)]
        #[kani::stub(crate::error::parse_lit_range, lit_range_contract)]
        #[kani::stub(crate::error::parse_eof, eof_contract)]
        #[kani::stub(crate::error::parse_duplicate_label, dup_label_contract)]
        #[kani::stub(AsmParser::parse_instr, AsmParser::parse_instr_any)]
        #[kani::stub(AsmParser::parse_trap, AsmParser::parse_trap_any)]
        fn $name() {
            let toks = any_operands($n);
            let line: u16 = kani::any();
            let first_is_break = $n > 0 && matches!(toks[0].kind, TokenKind::Breakpoint);
            let p = parser_over(toks, line);
            let got = p.parse();
            match got {
                Ok(air) => {
                    assert!(air.len() <= $n);
                    if air.len() >= 1 {
                        assert!(air.get(0).line == 1, "first statement is not statement 1");
                        assert!(air.get(0).span.end() <= SRC.len(), "statement span outside the source");
                    }
                    if first_is_break {
                        assert!(air.breakpoints.len() >= 1 && crate::debugger::verif_h::bp_addr_at(&air.breakpoints, 0) == 0,
                            ".break before the first statement does not mark statement 0");
                    }
                    kani::cover!(air.len() == $n);
                    core::mem::forget(air);
                }
                Err(e) => {
                    kani::cover!(line == 0xFFFF, "line counter at its maximum");
                    core::mem::forget(e);
                }
            }
        }
    };
}
parse_loop!(c05_parse_loop_total_1, 1);
parse_loop!(c05_parse_loop_total_2, 2);

// ------------------------------------------------------------------ C17 H-span / C11 H-break-dir (token level)
/// Statement span arithmetic in parse(): a statement's span runs from its first token to the end of its last
/// consumed operand, or over the first token alone when it has no operand (also right after an operand-ful
/// statement); .break marks the statement's index and produces no word.  parse_instr is replaced by its
/// contract towards parse(): "operands consumed up to byte E" (it sets tok_end = E >= end of the mnemonic) or
/// "no operand" (tok_end untouched, left over from an earlier statement: any value <= the mnemonic's offset).
/// That expect()/expect_where() record the end of each consumed operand is c17_tok_end_recorded.
static mut SPAN_E: Option<usize> = None;
impl AsmParser {
    fn parse_instr_span_contract(&mut self, _kind: InstrKind) -> Result<AirStmt> {
        if let Some(e) = unsafe { SPAN_E } {
            self.tok_end = e;
        }
        Ok(AirStmt::Return)
    }
}
macro_rules! span_harness {
    ($name:ident, $with_break:expr) => {
        #[kani::proof]
        #[kani::unwind(6)]
        #[kani::stub(alloc::fmt::format, stubs::fmt_format)]
        #[kani::stub(crate::symbol::with_symbol_table, stubs::with_symbol_table)]
        #[kani::stub(crate::error::parse_generic_unexpected, generic_unexpected_contract)]
        #[kani::stub(crate::error::parse_lit_range, lit_range_contract)]
        #[kani::stub(crate::error::parse_eof, eof_contract)]
        #[kani::stub(crate::error::parse_duplicate_label, dup_label_contract)]
        #[kani::stub(AsmParser::parse_instr, AsmParser::parse_instr_span_contract)]
        fn $name() {
            let o0: usize = kani::any();
            let l0: usize = kani::any();
            kani::assume(l0 >= 1 && o0 < 1000 && l0 < 100);
            let has_operands: bool = kani::any();
            let e: usize = kani::any();
            let earlier_end: usize = kani::any();
            kani::assume(e >= o0 + l0 && e < 2000 && earlier_end <= o0);
            unsafe {
                SPAN_E = if has_operands { Some(e) } else { None };
            }
            let mut toks = Vec::with_capacity(2);
            if $with_break {
                toks.push(Token::breakpoint(span_of(0, 0)));
            }
            toks.push(Token::new(TokenKind::Instr(InstrKind::Ret), span_of(o0, l0)));
            let mut p = parser_over(toks, 1);
            p.tok_end = earlier_end;
            match p.parse() {
                Ok(air) => {
                    assert!(air.len() == 1, "a .break produced a word of its own");
                    let sp = air.get(0).span;
                    assert!(sp.offs() == o0, "statement span does not start at its first token");
                    let want_end = if has_operands { e } else { o0 + l0 };
                    assert!(sp.end() == want_end, "statement span does not end at its last operand (or at the mnemonic when it has none)");
                    if $with_break {
                        assert!(air.breakpoints.len() == 1 && crate::debugger::verif_h::bp_addr_at(&air.breakpoints, 0) == 0
                            && crate::debugger::verif_h::bp_predefined_at(&air.breakpoints, 0), ".break does not mark the next statement");
                    } else {
                        assert!(air.breakpoints.len() == 0);
                    }
                    kani::cover!(has_operands && e > o0 + l0 + 3);
                    kani::cover!(!has_operands && earlier_end > 0);
                    core::mem::forget(air);
                }
                Err(err) => {
                    core::mem::forget(err);
                    assert!(false, "well-formed statement rejected");
                }
            }
        }
    };
}
span_harness!(c17_span_statement, false);

/// `.break` marks the statement that comes next: after K statements a lone Breakpoint token records address K
/// (statement index), flagged predefined, and adds no word.  (One token: two tokens through parse()'s loop
/// with kinds read back from the vector did not finish in 20 min.)
macro_rules! break_directive {
    ($name:ident, $k:expr) => {
        #[kani::proof]
        #[kani::unwind(6)]
        #[kani::stub(alloc::fmt::format, stubs::fmt_format)]
        #[kani::stub(crate::symbol::with_symbol_table, stubs::with_symbol_table)]
        #[kani::stub(crate::error::parse_generic_unexpected, generic_unexpected_contract)]
        #[kani::stub(crate::error::parse_lit_range, lit_range_contract)]
        #[kani::stub(crate::error::parse_eof, eof_contract)]
        #[kani::stub(crate::error::parse_duplicate_label, dup_label_contract)]
        #[kani::stub(AsmParser::parse_instr, AsmParser::parse_instr_any)]
        #[kani::stub(AsmParser::parse_trap, AsmParser::parse_trap_any)]
        fn $name() {
            let mut p = parser_over(vec![Token::breakpoint(span_of(0, 0))], kani::any());
            let mut i = 0;
            while i < $k {
                p.air.add_stmt(AirStmt::Return, Span::dummy());
                i += 1;
            }
            match p.parse() {
                Ok(air) => {
                    assert!(air.len() == $k, ".break produced a word of its own");
                    assert!(air.breakpoints.len() == 1 && crate::debugger::verif_h::bp_addr_at(&air.breakpoints, 0) == $k as u16
                        && crate::debugger::verif_h::bp_predefined_at(&air.breakpoints, 0), ".break does not mark the next statement's index");
                    kani::cover!(true);
                    core::mem::forget(air);
                }
                Err(e) => {
                    core::mem::forget(e);
                    assert!(false, ".break at the end of the source rejected");
                }
            }
        }
    };
}
break_directive!(c11_break_directive_0, 0usize);
break_directive!(c11_break_directive_2, 2usize);

/// expect_reg / expect record where the consumed operand ends (what parse() builds statement spans from)
parse_attrs! { fn c17_tok_end_recorded() {
    let o: usize = kani::any();
    let l: usize = kani::any();
    kani::assume(o < 1000 && l < 100);
    let use_label: bool = kani::any();
    let tok = if use_label { Token::new(TokenKind::Label, span_of(o, l)) } else { Token::new(TokenKind::Reg(any_register()), span_of(o, l)) };
    let mut p = parser_over(vec![tok], 1);
    let ok = if use_label { p.expect(TokenKind::Label).is_ok() } else { p.expect_reg().is_ok() };
    assert!(ok && p.tok_end == o + l, "end of the consumed operand not recorded");
    kani::cover!(use_label);
    kani::cover!(!use_label);
    core::mem::forget(p);
}}

// ------------------------------------------------------------------ C15: the contract of parse_simple
// parse_simple = read the first token, dispatch to parse_instr / parse_trap with *that token's* mnemonic,
// refuse non-instructions and surplus operands.  (Heavy: the mnemonic is read back from the token vector, which
// makes parse_instr's match symbolic for the symbolic executor -- thorough tier.)
fn any_non_directive_token() -> Token {
    let t = any_token(SRC.len());
    // eval text is lexed without the directive preprocessor: no Byte / Breakpoint tokens can occur
    kani::assume(!matches!(t.kind, TokenKind::Byte(_) | TokenKind::Breakpoint));
    t
}
parse_attrs! { fn c15_parse_simple_ret() {
    let surplus: bool = kani::any();
    let extra = any_non_directive_token();
    let toks = if surplus { vec![instr_token(InstrKind::Ret), extra] } else { vec![instr_token(InstrKind::Ret)] };
    let mut p = parser_over(toks, 1);
    let got = p.parse_simple();
    if surplus {
        assert!(got.is_err(), "surplus operand accepted by eval's parser");
    } else {
        assert!(matches!(got, Ok(AirStmt::Return)), "`ret` not parsed as RET");
    }
    kani::cover!(surplus);
    kani::cover!(!surplus);
    core::mem::forget(got);
    core::mem::forget(p);
}}
parse_attrs! { fn c15_parse_simple_not() {
    let n: usize = kani::any();
    kani::assume(n <= 3);
    let (a, b) = (any_register(), any_register());
    let mut toks = vec![instr_token(InstrKind::Not)];
    if n >= 1 { toks.push(reg_token(a)); }
    if n >= 2 { toks.push(reg_token(b)); }
    if n >= 3 { toks.push(any_non_directive_token()); }
    let mut p = parser_over(toks, 1);
    let got = p.parse_simple();
    if n == 2 {
        assert!(matches!(got, Ok(AirStmt::Not { dest, src_reg }) if dest == a && src_reg == b), "`not r r` not parsed as given");
    } else {
        assert!(got.is_err(), "missing or surplus operand accepted by eval's parser");
    }
    kani::cover!(n == 3);
    kani::cover!(n == 1);
    core::mem::forget(got);
    core::mem::forget(p);
}}
parse_attrs! { fn c15_parse_simple_not_an_instruction() {
    let t = any_non_directive_token();
    kani::assume(!matches!(t.kind, TokenKind::Instr(_) | TokenKind::Trap(_)));
    let empty: bool = kani::any();
    let mut p = parser_over(if empty { Vec::new() } else { vec![t] }, 1);
    let got = p.parse_simple();
    assert!(got.is_err(), "non-instruction accepted by eval's parser");
    kani::cover!(empty);
    kani::cover!(matches!(t.kind, TokenKind::Dir(_)));
    core::mem::forget(got);
    core::mem::forget(p);
}}

// ------------------------------------------------------------------ C01 H-directives: preprocess()
// preprocess() is driven with `Cursor::advance_real` replaced by a queue of tokens (lexing is decided by the
// lexer harnesses): .fill v -> one word v; .blkw n -> n zero words; .stringz "..." -> code points + 0 (the
// string text is sliced out of the real source); .break -> a Breakpoint token; .end stops; comments vanish.
static mut PRE_QUEUE: [Option<Token>; 4] = [None; 4];
static mut PRE_POS: usize = 0;
impl<'s> Cursor<'s> {
    fn advance_real_from_queue(&mut self) -> Result<Token> {
        unsafe {
            let t = if PRE_POS < 4 { PRE_QUEUE[PRE_POS] } else { None };
            PRE_POS += 1;
            Ok(t.unwrap_or(Token::new(TokenKind::Eof, Span::dummy())))
        }
    }
}
fn queue(toks: [Option<Token>; 4]) {
    unsafe {
        PRE_QUEUE = toks;
        PRE_POS = 0;
    }
}
fn bad_lit_contract(span: Span, src: &'static str, _present: bool) -> miette::Report {
    assert!(span.offs() + span.len() <= src.len(), "diagnostic span outside the source");
    miette::Report::msg("")
}
fn no_str_contract(span: Span, src: &'static str) -> miette::Report {
    assert!(span.offs() + span.len() <= src.len(), "diagnostic span outside the source");
    miette::Report::msg("")
}

macro_rules! pre_attrs {
    ($(#[$m:meta])* fn $name:ident() $body:block) => {
        #[kani::proof]
        #[kani::unwind(12)]
        #[kani::stub(alloc::fmt::format, stubs::fmt_format)]
        #[kani::stub(Cursor::advance_real, Cursor::advance_real_from_queue)]
        #[kani::stub(core::slice::memchr::memchr, stubs::memchr_simple)]
        #[kani::stub(crate::error::preproc_bad_lit, bad_lit_contract)]
        #[kani::stub(crate::error::preproc_no_str, no_str_contract)]
        $(#[$m])*
        fn $name() $body
    };
}

/// `.fill <literal>`: one data word with the literal's 16-bit value, spanning directive and literal; anything
/// else after .fill is a diagnostic
pre_attrs! { fn c01_pre_fill() {
    let v: u16 = kani::any();
    let dec: bool = kani::any();
    let lit = if dec { TokenKind::Lit(LiteralKind::Dec(v as i16)) } else { TokenKind::Lit(LiteralKind::Hex(v)) };
    queue([Some(Token::new(TokenKind::Dir(DirKind::Fill), span_of(0, 5))), Some(Token::new(lit, span_of(6, 2))), None, None]);
    match preprocess(".fill xx") {
        Ok(toks) => {
            assert!(toks.len() == 1 && toks[0].kind == TokenKind::Byte(v), ".fill does not produce exactly its value");
            assert!(toks[0].span.offs() == 0 && toks[0].span.end() == 8, ".fill span is not directive + literal");
            kani::cover!(v == 0xFFFF && dec);
            core::mem::forget(toks);
        }
        Err(e) => {
            core::mem::forget(e);
            assert!(false, ".fill with a literal rejected");
        }
    }
}}

/// `.blkw n` (n = 0, 2 as Hex; 3 as Dec): n zero words
macro_rules! pre_blkw {
    ($name:ident, $lit:expr, $n:expr) => {
        pre_attrs! { fn $name() {
            queue([Some(Token::new(TokenKind::Dir(DirKind::Blkw), span_of(0, 5))), Some(Token::new(TokenKind::Lit($lit), span_of(6, 2))), None, None]);
            match preprocess(".blkw xx") {
                Ok(toks) => {
                    assert!(toks.len() == $n, ".blkw does not reserve exactly n words");
                    let mut i = 0;
                    while i < $n {
                        assert!(toks[i].kind == TokenKind::Byte(0), ".blkw word not zero");
                        i += 1;
                    }
                    kani::cover!(true);
                    core::mem::forget(toks);
                }
                Err(e) => {
                    core::mem::forget(e);
                    assert!(false, ".blkw with a literal rejected");
                }
            }
        }}
    };
}
pre_blkw!(c01_pre_blkw_hex0, LiteralKind::Hex(0), 0usize);
pre_blkw!(c01_pre_blkw_hex2, LiteralKind::Hex(2), 2usize);
pre_blkw!(c01_pre_blkw_dec3, LiteralKind::Dec(3), 3usize);

/// `.stringz`: code points of the unescaped text (characters, not bytes), then a zero word.  One harness per
/// literal: plain escape, an escaped backslash followed by `n`, a 2-byte character, a 2-byte character before an escape.
macro_rules! pre_stringz {
    ($name:ident, $src:expr, $strlen:expr, $want:expr) => {
        pre_attrs! { fn $name() {
            const SRC1: &str = $src;
            queue([Some(Token::new(TokenKind::Dir(DirKind::Stringz), span_of(0, 8))), Some(Token::new(TokenKind::Lit(LiteralKind::Str), span_of(9, $strlen))), None, None]);
            let want: &[u16] = $want;
            match preprocess(SRC1) {
                Ok(toks) => {
                    assert!(toks.len() == want.len(), ".stringz does not expand to its characters plus a terminator");
                    let mut i = 0;
                    while i < want.len() {
                        assert!(toks[i].kind == TokenKind::Byte(want[i]), ".stringz words are not the unescaped code points followed by zero");
                        i += 1;
                    }
                    assert!(toks[0].span.offs() == 0 && toks[0].span.end() == 9 + $strlen);
                    kani::cover!(true);
                    core::mem::forget(toks);
                }
                Err(e) => {
                    core::mem::forget(e);
                    assert!(false, ".stringz with a string rejected");
                }
            }
        }}
    };
}
// .stringz "a\n"      -> a, LF, 0
pre_stringz!(c01_pre_stringz, ".stringz \"a\\n\"", 5, &[0x61, 10, 0]);
// .stringz "\\n"     -> backslash, n, 0   (an escaped backslash followed by the letter n)
pre_stringz!(c01_pre_stringz_backslash_n, ".stringz \"\\\\n\"", 5, &[0x5C, 0x6E, 0]);
// .stringz "é"        -> U+00E9, 0   (one word per character, not per byte)
pre_stringz!(c01_pre_stringz_nonascii, ".stringz \"\u{e9}\"", 4, &[0xE9, 0]);
// .stringz "é\n"     -> U+00E9, LF, 0  (multi-byte character before the first escape)
pre_stringz!(c01_pre_stringz_nonascii_escape, ".stringz \"\u{e9}\\n\"", 6, &[0xE9, 10, 0]);

/// a data directive followed by a token that is not its operand, or by nothing (end of file: the Eof token with its
/// dummy span): a diagnostic, no panic.  Directive and operand kind are enumerated concretely (symbolic token
/// kinds through preprocess() did not finish in 40 min); the directive's offset is symbolic.
pre_attrs! { fn c05_pre_directive_wrong_operand() {
    let doff: usize = kani::any();
    kani::assume(doff <= 3);
    let dirs = [DirKind::Fill, DirKind::Blkw, DirKind::Stringz];
    let mut di = 0;
    while di < 3 {
        let mut oi = 0;
        while oi < 4 {
            let operand = match oi {
                0 => None, // end of file
                1 => Some(Token::new(TokenKind::Label, span_of(6, 2))),
                2 => Some(Token::new(TokenKind::Reg(Register::R1), span_of(6, 2))),
                _ => Some(Token::new(TokenKind::Dir(DirKind::Orig), span_of(6, 2))),
            };
            queue([Some(Token::new(TokenKind::Dir(dirs[di]), span_of(doff, 5))), operand, None, None]);
            let r = preprocess("ab cdefg");
            assert!(r.is_err(), "data directive without its operand accepted");
            core::mem::forget(r);
            oi += 1;
        }
        di += 1;
    }
    kani::cover!(doff == 3);
}}

/// .break becomes a Breakpoint token, .end stops the stream, comments/whitespace vanish
pre_attrs! { fn c01_pre_break_end() {
    queue([Some(Token::new(TokenKind::Comment, span_of(0, 1))), Some(Token::new(TokenKind::Dir(DirKind::Break), span_of(1, 2))),
           Some(Token::new(TokenKind::Dir(DirKind::End), span_of(3, 1))), Some(Token::new(TokenKind::Label, span_of(4, 1)))]);
    match preprocess("ab cdefg") {
        Ok(toks) => {
            assert!(toks.len() == 1 && toks[0].kind == TokenKind::Breakpoint, ".break/.end/comment handling wrong");
            kani::cover!(true);
            core::mem::forget(toks);
        }
        Err(e) => {
            core::mem::forget(e);
            assert!(false);
        }
    }
}}

/// the token pass `eval` uses (preprocess_simple) drops only comments and whitespace: a directive -- `.end` included
/// -- and whatever follows it stay in the stream, so that parse_simple's "exactly one instruction, nothing after it"
/// check sees them (token kinds and order concrete -- symbolic kinds through the pass are intractable --, offsets symbolic)
pre_attrs! { fn c15_pre_simple_keeps_everything() {
    let o: usize = kani::any();
    kani::assume(o < 1000);
    queue([Some(Token::new(TokenKind::Label, span_of(o, 1))), Some(Token::new(TokenKind::Whitespace, span_of(o + 1, 1))),
           Some(Token::new(TokenKind::Dir(DirKind::End), span_of(o + 2, 4))), Some(Token::new(TokenKind::Label, span_of(o + 7, 1)))]);
    match preprocess_simple("a .end b") {
        Ok(toks) => {
            assert!(toks.len() == 3, "the eval token pass drops tokens other than comments and whitespace");
            assert!(toks[0].kind == TokenKind::Label && toks[1].kind == TokenKind::Dir(DirKind::End) && toks[2].kind == TokenKind::Label,
                    "the eval token pass reorders or rewrites tokens");
            assert!(toks[2].span.offs() == o + 7);
            kani::cover!(o == 5);
            core::mem::forget(toks);
        }
        Err(e) => {
            core::mem::forget(e);
            assert!(false, "the eval token pass fails on well-formed tokens");
        }
    }
}}

// ------------------------------------------------------------------ unescape() alone (the .stringz text -> characters step)
// (.stringz through preprocess() did not finish in 90 min even on a concrete 6-byte literal; the escape
// processing itself is decided here on concrete literals -- the loop that turns the characters into words is read)
macro_rules! unescape_case {
    ($name:ident, $text:expr, $want:expr) => {
        #[kani::proof]
        #[kani::unwind(12)]
        #[kani::stub(core::slice::memchr::memchr, stubs::memchr_simple)]
        fn $name() {
            let out = unescape($text);
            let want: &[char] = $want;
            let mut it = out.chars();
            let mut i = 0;
            while i < want.len() {
                assert!(it.next() == Some(want[i]), "unescaped text differs from the documented escapes");
                i += 1;
            }
            assert!(it.next().is_none(), "unescaped text has extra characters");
            kani::cover!(true);
            core::mem::forget(out);
        }
    };
}
unescape_case!(c01_unescape_plain, "ab", &['a', 'b']);
unescape_case!(c01_unescape_newline, "a\\n", &['a', '\n']);
unescape_case!(c01_unescape_backslash_n, "\\\\n", &['\\', 'n']);
unescape_case!(c01_unescape_nonascii_escape, "\u{e9}\\n", &['\u{e9}', '\n']);
unescape_case!(c01_unescape_quote_tab, "\\\"\\t", &['"', '\t']);
