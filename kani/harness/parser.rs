//! cfg(kani) child of src/parser.rs: token-level parser harnesses (C01 H-parse, C04 H-range, C05 H-parse-total, C17 H-span).
#![allow(dead_code, unused_imports)]
use super::*;
use crate::air::AsmLine;
use crate::lexer::verif_h::{any_kind, any_token, displayable, lit_value};
use crate::symbol::verif_h::{any_flag, any_register, span_of, spec_flag_bits, table_put};
use crate::symbol::Flag;
use crate::verif_h::{enc_pcrel, fits_signed, fits_unsigned, stubs};

/// the fixed source text token spans point into (ASCII; "ab" at 0..2 is the label name used by harnesses)
pub(crate) const SRC: &str = "ab cdefg";

pub(crate) fn parser_over(toks: Vec<Token>, line: u16) -> AsmParser {
    AsmParser { src: SRC, toks: toks.into_iter().peekable(), air: Air::new(SRC), line, tok_end: 0 }
}

fn rn(r: Register) -> u16 {
    r as u16
}

fn lit_token(dec: bool, v: u16) -> Token {
    let kind = if dec { TokenKind::Lit(LiteralKind::Dec(v as i16)) } else { TokenKind::Lit(LiteralKind::Hex(v)) };
    Token::new(kind, span_of(3, 2))
}
fn reg_token(r: Register) -> Token {
    Token::new(TokenKind::Reg(r), span_of(3, 2))
}
fn label_token() -> Token {
    Token::new(TokenKind::Label, span_of(0, 2))
}

/// contract stub for error::parse_generic_unexpected (C05): the found token's kind must be displayable,
/// its span must lie inside the source (the real constructor formats `found.kind` and slices `src`)
fn generic_unexpected_contract(src: &'static str, _expected: &str, found: Token) -> miette::Report {
    assert!(displayable(&found.kind), "error path formats a token kind whose Display is unreachable!()");
    assert!(found.span.offs() + found.span.len() <= src.len(), "diagnostic span outside the source");
    miette::Report::msg("")
}

/// cheap stand-ins for the other diagnostics constructors used where diagnostics are not the subject
/// (C05 runs the real constructors): the span must lie inside the source
fn lit_range_contract(span: Span, src: &'static str, _bits: Bits) -> miette::Report {
    assert!(span.offs() + span.len() <= src.len(), "diagnostic span outside the source");
    miette::Report::msg("")
}
fn eof_contract(_src: &'static str) -> miette::Report {
    miette::Report::msg("")
}

// ------------------------------------------------------------------ C04 H-range
macro_rules! range_harness {
    ($name:ident, $bits:expr, $fits:expr) => {
        #[kani::proof]
        #[kani::unwind(7)]
        #[kani::stub(alloc::fmt::format, stubs::fmt_format)]
        fn $name() {
            let v: u16 = kani::any();
            let dec: bool = kani::any();
            let line: u16 = kani::any();
            let mut p = parser_over(vec![lit_token(dec, v)], line);
            let got = p.expect_lit($bits);
            let fits: bool = ($fits)(v);
            if fits {
                assert!(matches!(got, Ok(x) if x == v), "in-range literal rejected or changed");
            } else {
                assert!(got.is_err(), "out-of-range literal accepted");
            }
            kani::cover!(fits && v >= 0x80);
            kani::cover!(!fits);
            core::mem::forget(p);
        }
    };
}
range_harness!(c04_range_imm5, Bits::Signed(5), |v| fits_signed(v, 5));
range_harness!(c04_range_offs6, Bits::Signed(6), |v| fits_signed(v, 6));
range_harness!(c04_range_pc9, Bits::Signed(9), |v| fits_signed(v, 9));
range_harness!(c04_range_pc11, Bits::Signed(11), |v| fits_signed(v, 11));
range_harness!(c04_range_trap8, Bits::Unsigned(8), |v| fits_unsigned(v, 8));

/// .orig / 16-bit fields: every 16-bit literal fits
#[kani::proof]
#[kani::unwind(7)]
#[kani::stub(alloc::fmt::format, stubs::fmt_format)]
#[kani::stub(crate::symbol::with_symbol_table, stubs::with_symbol_table)]
#[kani::stub(crate::error::parse_generic_unexpected, generic_unexpected_contract)]
#[kani::stub(crate::error::parse_lit_range, lit_range_contract)]
#[kani::stub(crate::error::parse_eof, eof_contract)]
fn c04_range_orig16() {
    let v: u16 = kani::any();
    let dec: bool = kani::any();
    let mut p = parser_over(vec![lit_token(dec, v)], kani::any());
    let got = p.expect_lit(Bits::Unsigned(16));
    assert!(matches!(got, Ok(x) if x == v), "16-bit value rejected for a 16-bit field");
    kani::cover!(v >= 0x8000);
    core::mem::forget(p);
}

// ------------------------------------------------------------------ C01/C04 H-parse o H-emit
// One harness per mnemonic and operand form: a *symbolic* mnemonic makes symbolic execution merge the
// 20-way match in parse_instr and costs >10x (measured), so the mnemonic is a constant of each harness.
// Operand values (registers, 16-bit literals, Dec/Hex spelling, line number) stay symbolic.
macro_rules! parse_attrs {
    ($(#[$m:meta])* fn $name:ident() $body:block) => {
        #[kani::proof]
        #[kani::unwind(7)]
        #[kani::stub(alloc::fmt::format, stubs::fmt_format)]
        #[kani::stub(crate::symbol::with_symbol_table, stubs::with_symbol_table)]
        #[kani::stub(crate::error::parse_generic_unexpected, generic_unexpected_contract)]
        #[kani::stub(crate::error::parse_lit_range, lit_range_contract)]
        #[kani::stub(crate::error::parse_eof, eof_contract)]
        $(#[$m])*
        fn $name() $body
    };
}

/// emit the parsed statement and compare with the expected word (forget everything: drop glue is not the subject)
fn emit_and_compare(got: Result<AirStmt>, line: u16, expect: Option<u16>, p: AsmParser) {
    match expect {
        Some(word) => match got {
            Ok(stmt) => {
                let l = AsmLine::new(line, stmt, Span::dummy());
                let w = l.emit();
                assert!(matches!(w, Ok(x) if x == word), "operands are not encoded in their documented fields");
                core::mem::forget(w);
                core::mem::forget(l);
            }
            Err(e) => {
                core::mem::forget(e);
                assert!(false, "well-formed statement with in-range operands rejected");
            }
        },
        None => {
            assert!(got.is_err(), "statement with an out-of-range operand accepted");
            core::mem::forget(got);
        }
    }
    core::mem::forget(p);
}

macro_rules! alu_imm {
    ($name:ident, $kind:expr, $op:expr) => {
        parse_attrs! { fn $name() {
            let dr = any_register();
            let sr = any_register();
            let v: u16 = kani::any();
            let dec: bool = kani::any();
            let line: u16 = kani::any();
            let mut p = parser_over(vec![reg_token(dr), reg_token(sr), lit_token(dec, v)], line);
            let got = p.parse_instr($kind);
            let expect = if fits_signed(v, 5) { Some($op + rn(dr) * 512 + rn(sr) * 64 + 32 + (v % 32)) } else { None };
            kani::cover!(v == 0xFFF0);
            kani::cover!(v == 16);
            emit_and_compare(got, line, expect, p);
        }}
    };
}
alu_imm!(c01_pe_add_imm, InstrKind::Add, 0x1000u16);
alu_imm!(c01_pe_and_imm, InstrKind::And, 0x5000u16);

macro_rules! alu_reg {
    ($name:ident, $kind:expr, $op:expr) => {
        parse_attrs! { fn $name() {
            let dr = any_register();
            let sr = any_register();
            let r3 = any_register();
            let line: u16 = kani::any();
            let mut p = parser_over(vec![reg_token(dr), reg_token(sr), reg_token(r3)], line);
            let got = p.parse_instr($kind);
            kani::cover!(rn(dr) == 7 && rn(sr) == 0 && rn(r3) == 5);
            emit_and_compare(got, line, Some($op + rn(dr) * 512 + rn(sr) * 64 + rn(r3)), p);
        }}
    };
}
alu_reg!(c01_pe_add_reg, InstrKind::Add, 0x1000u16);
alu_reg!(c01_pe_and_reg, InstrKind::And, 0x5000u16);

macro_rules! offs6 {
    ($name:ident, $kind:expr, $op:expr) => {
        parse_attrs! { fn $name() {
            let a = any_register();
            let b = any_register();
            let v: u16 = kani::any();
            let dec: bool = kani::any();
            let line: u16 = kani::any();
            let mut p = parser_over(vec![reg_token(a), reg_token(b), lit_token(dec, v)], line);
            let got = p.parse_instr($kind);
            let expect = if fits_signed(v, 6) { Some($op + rn(a) * 512 + rn(b) * 64 + (v % 64)) } else { None };
            kani::cover!(v == 0xFFE0);
            kani::cover!(v == 32);
            emit_and_compare(got, line, expect, p);
        }}
    };
}
offs6!(c01_pe_ldr, InstrKind::Ldr, 0x6000u16);
offs6!(c01_pe_str, InstrKind::Str, 0x7000u16);

macro_rules! reg_form {
    ($name:ident, $kind:expr, |$a:ident, $b:ident| $expect:expr) => {
        parse_attrs! { fn $name() {
            let $a = any_register();
            let $b = any_register();
            let line: u16 = kani::any();
            let mut p = parser_over(vec![reg_token($a), reg_token($b)], line);
            let got = p.parse_instr($kind);
            kani::cover!(rn($a) == 7 && rn($b) == 1);
            emit_and_compare(got, line, Some($expect), p);
        }}
    };
}
reg_form!(c01_pe_not, InstrKind::Not, |a, b| 0x9000 + rn(a) * 512 + rn(b) * 64 + 63);
reg_form!(c01_pe_jmp, InstrKind::Jmp, |a, _b| 0xC000 + rn(a) * 64);
reg_form!(c01_pe_jsrr, InstrKind::Jsrr, |a, _b| 0x4000 + rn(a) * 64);
reg_form!(c01_pe_push, InstrKind::Push, |a, _b| 0xD400 + rn(a) * 64);
reg_form!(c01_pe_pop, InstrKind::Pop, |a, _b| 0xD000 + rn(a) * 64);
reg_form!(c01_pe_ret, InstrKind::Ret, |a, _b| 0xC1C0 + rn(a) * 0);
reg_form!(c01_pe_rti, InstrKind::Rti, |a, _b| 0x8000 + rn(a) * 0);
reg_form!(c01_pe_rets, InstrKind::Rets, |a, _b| 0xD800 + rn(a) * 0);

/// PC-relative forms with a *literal* offset: accepted iff the literal fits; the field of the emitted
/// word equals the literal (mod 2^n), i.e. target = own address + 1 + literal, for every line number.
macro_rules! pcrel_lit {
    ($name:ident, $kind:expr, $bits:expr, $has_reg:expr, |$r:ident| $base:expr) => {
        parse_attrs! { fn $name() {
            let $r = any_register();
            let v: u16 = kani::any();
            let dec: bool = kani::any();
            let line: u16 = kani::any();
            let toks = if $has_reg { vec![reg_token($r), lit_token(dec, v)] } else { vec![lit_token(dec, v)] };
            let mut p = parser_over(toks, line);
            let got = p.parse_instr($kind);
            let expect = if fits_signed(v, $bits) { Some($base + (v % (1u16 << $bits))) } else { None };
            kani::cover!(fits_signed(v, $bits) && v >= 0x8000 && line == 1); // `br #-2` on line 1
            kani::cover!(fits_signed(v, $bits) && line == 0xFFFF);
            emit_and_compare(got, line, expect, p);
        }}
    };
}
pcrel_lit!(c01_pe_br_lit, InstrKind::Br(Flag::Nzp), 9u32, false, |r| 0x0E00u16 + rn(r) * 0);
pcrel_lit!(c01_pe_brn_lit, InstrKind::Br(Flag::N), 9u32, false, |r| 0x0800u16 + rn(r) * 0);
pcrel_lit!(c01_pe_ld_lit, InstrKind::Ld, 9u32, true, |r| 0x2000 + rn(r) * 512);
pcrel_lit!(c01_pe_ldi_lit, InstrKind::Ldi, 9u32, true, |r| 0xA000 + rn(r) * 512);
pcrel_lit!(c01_pe_lea_lit, InstrKind::Lea, 9u32, true, |r| 0xE000 + rn(r) * 512);
pcrel_lit!(c01_pe_st_lit, InstrKind::St, 9u32, true, |r| 0x3000 + rn(r) * 512);
pcrel_lit!(c01_pe_sti_lit, InstrKind::Sti, 9u32, true, |r| 0xB000 + rn(r) * 512);
pcrel_lit!(c01_pe_jsr_lit, InstrKind::Jsr, 11u32, false, |r| 0x4800u16 + rn(r) * 0);

/// PC-relative forms with a *label* operand already defined (Ref(line)) or not yet (Unfilled(name)),
/// then the real backpatch + emit: the field is (label line - own line - 1), Err iff it does not fit or
/// the label is never defined.
macro_rules! pcrel_label {
    ($name:ident, $kind:expr, $bits:expr, $has_reg:expr, |$r:ident| $base:expr) => {
        parse_attrs! { fn $name() {
            let defined_before: bool = kani::any();
            let defined_after: bool = kani::any();
            let lline: u16 = kani::any();
            if defined_before {
                table_put("ab", lline);
            }
            let $r = any_register();
            let line: u16 = kani::any();
            let toks = if $has_reg { vec![reg_token($r), label_token()] } else { vec![label_token()] };
            let mut p = parser_over(toks, line);
            let got = p.parse_instr($kind);
            core::mem::forget(p);
            let stmt = match got {
                Ok(s) => s,
                Err(e) => {
                    core::mem::forget(e);
                    assert!(false, "label operand rejected");
                    return;
                }
            };
            // the label's definition may come later in the source (forward reference)
            if !defined_before && defined_after {
                table_put("ab", lline);
            }
            let mut l = AsmLine::new(line, stmt, Span::dummy());
            let bp = l.backpatch();
            if !defined_before && !defined_after {
                assert!(bp.is_err(), "reference to an undefined label accepted");
                core::mem::forget(bp);
                core::mem::forget(l);
                return;
            }
            assert!(bp.is_ok(), "reference to a defined label rejected");
            core::mem::forget(bp);
            let w = l.emit();
            match enc_pcrel(line, lline, $bits) {
                Some(field) => assert!(matches!(w, Ok(x) if x == $base + field), "label reference not encoded as target - (address + 1)"),
                None => assert!(w.is_err(), "label reference farther than the field allows accepted"),
            }
            kani::cover!(defined_before && w.is_ok());
            kani::cover!(!defined_before && defined_after && w.is_ok() && lline > line);
            kani::cover!(lline == line && w.is_ok()); // label on the referencing statement itself
            core::mem::forget(w);
            core::mem::forget(l);
        }}
    };
}
pcrel_label!(c01_pe_br_label, InstrKind::Br(Flag::Zp), 9u32, false, |r| 0x0600u16 + rn(r) * 0);
pcrel_label!(c01_pe_ld_label, InstrKind::Ld, 9u32, true, |r| 0x2000 + rn(r) * 512);
pcrel_label!(c01_pe_st_label, InstrKind::St, 9u32, true, |r| 0x3000 + rn(r) * 512);
pcrel_label!(c01_pe_lea_label, InstrKind::Lea, 9u32, true, |r| 0xE000 + rn(r) * 512);
pcrel_label!(c01_pe_ldi_label, InstrKind::Ldi, 9u32, true, |r| 0xA000 + rn(r) * 512);
pcrel_label!(c01_pe_sti_label, InstrKind::Sti, 9u32, true, |r| 0xB000 + rn(r) * 512);
pcrel_label!(c01_pe_jsr_label, InstrKind::Jsr, 11u32, false, |r| 0x4800u16 + rn(r) * 0);
pcrel_label!(c01_pe_call_label, InstrKind::Call, 10u32, false, |r| 0xDC00u16 + rn(r) * 0);

/// traps: named traps map to their documented vectors, TRAP takes any 8-bit vector
parse_attrs! { fn c01_pe_trap() {
    let v: u16 = kani::any();
    let dec: bool = kani::any();
    let line: u16 = kani::any();
    let k = crate::symbol::verif_h::any_trap_kind();
    let expect: Option<u16> = match k {
        TrapKind::Generic => if fits_unsigned(v, 8) { Some(0xF000 + v) } else { None },
        TrapKind::Getc => Some(0xF020),
        TrapKind::Out => Some(0xF021),
        TrapKind::Puts => Some(0xF022),
        TrapKind::In => Some(0xF023),
        TrapKind::Putsp => Some(0xF024),
        TrapKind::Halt => Some(0xF025),
        TrapKind::Putn => Some(0xF026),
        TrapKind::Reg => Some(0xF027),
    };
    let mut p = parser_over(vec![lit_token(dec, v)], line);
    let got = p.parse_trap(k);
    kani::cover!(matches!(k, TrapKind::Generic) && v == 0xFF);
    kani::cover!(matches!(k, TrapKind::Generic) && v == 0x100);
    emit_and_compare(got, line, expect, p);
}}
