//! cfg(kani) child of src/features.rs: lets harnesses put the feature cell into a chosen state.
#![allow(dead_code)]
use super::*;

/// Initialise the thread-local feature cell (as `features::init` does, through the real function).
pub(crate) fn set_stack(on: bool) {
    init(Features { stack: on });
}

/// C18 H-fromstr: `Features::from_str` on the documented spellings.
#[kani::proof]
#[kani::unwind(8)]
#[kani::stub(alloc::fmt::format, crate::verif_h::stubs::fmt_format)]
fn c18_fromstr_fixed() {
    let a = "".parse::<Features>();
    assert!(matches!(a, Ok(Features { stack: false })));
    let b = "stack".parse::<Features>();
    assert!(matches!(b, Ok(Features { stack: true })));
    let c = "stack,stack".parse::<Features>();
    assert!(c.is_err());
    let d = "stak".parse::<Features>();
    assert!(d.is_err());
    kani::cover!(true);
}
