//! cfg(kani) child of src/debugger/mod.rs: the debugger harnesses (C09-C13, C16, C17).
//!
//! Representation invariant assumed in every harness (re-established by Debugger::new / preserved by
//! every command, see c1x_* harnesses): initial_state.pc == asm_source.orig == state.orig; breakpoints
//! sorted, duplicate-free, all >= orig; every label line L >= 1 with orig + L - 1 <= 0xFFFF.
#![allow(dead_code, unused_imports)]
use super::*;
use crate::debugger::breakpoint::verif_h as bph;
use crate::debugger::command::verif_h::{self as cmdh, Rec};
use crate::runtime::verif_h::{any_state, assert_unchanged, orig_of, peek, set_orig, set_pc, snap};
use crate::symbol::verif_h::table_put;
use crate::verif_h::{capture, stubs, Snap};

// ------------------------------------------------------------------ building a debugger
#[derive(Clone, Copy, PartialEq)]
pub(crate) enum St {
    Wait,
    Over(u16),
    Into(u16),
    Cont,
    Fin,
}
pub(crate) fn st_of(s: &Status) -> St {
    match s {
        Status::WaitForAction => St::Wait,
        Status::StepOver { return_addr } => St::Over(*return_addr),
        Status::StepInto { count } => St::Into(*count),
        Status::Continue => St::Cont,
        Status::Finish => St::Fin,
    }
}
fn status_of(s: St) -> Status {
    match s {
        St::Wait => Status::WaitForAction,
        St::Over(a) => Status::StepOver { return_addr: a },
        St::Into(c) => Status::StepInto { count: c },
        St::Cont => Status::Continue,
        St::Fin => Status::Finish,
    }
}
pub(crate) fn any_running_st() -> St {
    match kani::any::<u8>() % 4 {
        0 => St::Over(kani::any()),
        1 => St::Into(kani::any()),
        2 => St::Cont,
        _ => St::Fin,
    }
}

/// breakpoint list of exactly `n` (0..=2, concrete) entries with symbolic addresses, sorted, duplicate-free, all >= orig.
/// (A list of *symbolic length* makes Vec::insert/remove's memmove intractable -- measured.)
fn any_breakpoints(orig: u16, n: usize) -> Breakpoints {
    let b = if n == 0 {
        bph::sorted_0()
    } else if n == 1 {
        bph::sorted_1()
    } else {
        bph::sorted_2()
    };
    if n >= 1 {
        kani::assume(bph::addr_at(&b, 0) >= orig);
    }
    b
}
fn bp_has(b: &Breakpoints, a: u16) -> bool {
    let mut i = 0;
    while i < b.len() {
        if bph::addr_at(b, i) == a {
            return true;
        }
        i += 1;
    }
    false
}

/// An arbitrary debugger over an arbitrary machine.  `light_initial`: the saved initial machine's memory is
/// left out of the symbolic domain of interest (still an unconstrained object).
pub(crate) fn any_debugger(state: &mut RunState, status: St) -> Debugger {
    any_debugger_n(state, status, 2)
}
pub(crate) fn any_debugger_n(state: &mut RunState, status: St, nbp: usize) -> Debugger {
    let orig: u16 = orig_of(state);
    let mut init = any_state();
    set_orig(&mut init, orig);
    set_pc(&mut init, orig);
    Debugger {
        initial_state: init,
        asm_source: AsmSource::from(orig, Vec::new(), ""),
        command_reader: cmdh::dummy_reader(),
        status: status_of(status),
        breakpoints: any_breakpoints(orig, nbp),
        current_breakpoint: kani::any(),
        instruction_count: kani::any(),
        should_echo_pc: kani::any(),
    }
}

/// label "ab" bound to a symbolic line number L (1-based, as the parser records it), with orig + L - 1 <= 0xFFFF
pub(crate) fn bind_label(orig: u16) -> u16 {
    let l: u16 = kani::any();
    kani::assume(l >= 1 && (orig as u32) + (l as u32) - 1 <= 0xFFFF);
    table_put(cmdh::LABEL_NAME, l);
    l
}

fn eval_cut(_state: &mut RunState, _line: &str) {
    // `eval` is decided by the C15 harnesses; by its signature it can reach the machine only.
    kani::assume(false);
}

fn is_halt(w: u16) -> bool {
    w / 4096 == 15 && w % 256 == 0x25
}
fn is_ret(w: u16) -> bool {
    (w / 4096 == 0xC && (w / 64) % 8 == 7) || (w / 4096 == 0xD && (w / 1024) % 4 == 2)
}
fn in_user(orig: u16, a: i32) -> bool {
    a >= orig as i32 && a < 0xFE00
}

/// reference resolution of a location (i32 arithmetic): Some(address) iff it denotes a user-space address
/// (absolute addresses are returned as they are; whether they are *usable* is the caller's check)
fn spec_resolve(r: &Rec, pc: u16, orig: u16, label_line: u16) -> Option<u16> {
    match r.lkind {
        0 => Some(r.addr),
        1 => {
            let a = pc as i32 + r.off as i32;
            if in_user(orig, a) {
                Some(a as u16)
            } else {
                None
            }
        }
        _ => {
            let a = orig as i32 + label_line as i32 - 1 + r.off as i32;
            if in_user(orig, a) {
                Some(a as u16)
            } else {
                None
            }
        }
    }
}

macro_rules! dbg_attrs {
    ($(#[$m:meta])* fn $name:ident() $body:block) => {
        #[kani::proof]
        #[kani::unwind(9)]
        #[kani::stub(alloc::fmt::format, stubs::fmt_format)]
        #[kani::stub(crate::symbol::with_symbol_table, stubs::with_symbol_table)]
        #[kani::stub(crate::output::Output::print_fmt, crate::output::verif_h::print_fmt_count)]
        #[kani::stub(crate::debugger::command::Command::read_from, crate::debugger::command::Command::read_from_any)]
        #[kani::stub(crate::debugger::eval::eval, eval_cut)]
        $(#[$m])*
        fn $name() $body
    };
}

// ------------------------------------------------------------------ C13 (+C17 label resolution): move / goto
// one arbitrary `move` or `goto` from an arbitrary machine: exactly the named target changes, and only if it
// is a register or a user-space address; label+offset / PC-offset arithmetic against an i32 reference.
fn move_goto_body(mask: u32, lkind: Option<u8>, is_reg: Option<bool>) {
    cmdh::fix_form(lkind, is_reg);
    let mut s = any_state();
    let orig = orig_of(&s);
    let mut d = any_debugger(&mut s, St::Wait);
    let l = bind_label(orig);
    crate::output::verif_h::set_minimal_any();
    cmdh::allow(mask, 1, false);
    let probe: u16 = kani::any();
    let pre = snap(&s);
    let pre_probe = peek(&s, probe);
    let n_bp = d.breakpoints.len();
    let act = d.run_command(&mut s);
    assert!(act.is_none(), "move/goto ended the session");
    let r = cmdh::last().unwrap();
    let mut e = crate::verif_h::Effect { r: pre.r, pc: pre.pc, cc: pre.cc, write: None };
    if r.sel == 7 && r.is_reg {
        e.r[r.reg as usize] = r.value;
    } else {
        let target = match spec_resolve(&r, pre.pc, orig, l) {
            Some(a) if in_user(orig, a as i32) => Some(a),
            _ => None,
        };
        if let Some(a) = target {
            if r.sel == 7 {
                e.write = Some((a, r.value));
            } else {
                e.pc = a;
            }
        }
        kani::cover!(target.is_some(), "target in user space");
        kani::cover!(target.is_none(), "target refused");
        kani::cover!(matches!(target, Some(a) if a >= 0x8000), "target in the upper half of memory");
    }
    crate::runtime::verif_h::assert_effect(&s, &e, probe, pre_probe);
    assert!(matches!(d.status, Status::WaitForAction), "move/goto changed the execution status");
    assert!(d.breakpoints.len() == n_bp, "move/goto changed the breakpoint list");
    assert!(capture::len() == 0, "debugger command wrote to the program's output");
    core::mem::forget(d);
}
macro_rules! move_goto {
    ($name:ident, $mask:expr, $lkind:expr, $is_reg:expr) => {
        dbg_attrs! {
        #[kani::stub(crate::output::Output::print_registers, cut_print_registers)]
        #[kani::stub(crate::output::Output::print_integer, cut_print_integer)]
        #[kani::stub(crate::debugger::Debugger::show_assembly_source, cut_show_assembly)]
        #[kani::stub(crate::debugger::print_help_message, cut_help)]
        fn $name() { move_goto_body($mask, $lkind, $is_reg); }}
    };
}
move_goto!(c13_move_reg, cmdh::C_MOVE, Some(0), Some(true));
move_goto!(c13_move_addr, cmdh::C_MOVE, Some(0), Some(false));
move_goto!(c13_move_pcoff, cmdh::C_MOVE, Some(1), Some(false));
move_goto!(c13_move_label, cmdh::C_MOVE, Some(2), Some(false));
move_goto!(c13_goto_addr, cmdh::C_GOTO, Some(0), Some(false));
move_goto!(c13_goto_pcoff, cmdh::C_GOTO, Some(1), Some(false));
move_goto!(c13_goto_label, cmdh::C_GOTO, Some(2), Some(false));

// cutters for command arms a harness's command group excludes (they are unreachable under the group's
// mask; cutting their callees keeps symbolic execution out of them)
fn cut_print_registers(_o: &Output, _s: &RunState) {
    kani::assume(false);
}
fn cut_print_integer(_o: &Output, _v: u16) {
    kani::assume(false);
}
fn cut_show_assembly(_d: &Debugger, _s: &RunState, _a: u16) {
    kani::assume(false);
}
fn cut_help() {
    kani::assume(false);
}

// ------------------------------------------------------------------ C09/C10/C11/C16: one call of next_action while running
// From an arbitrary *running* configuration (StepOver{any}, StepInto{any}, Continue, Finish; <= 2 breakpoints;
// any "just paused here" marker; any counters) and an arbitrary machine: the call pauses (asks for a command)
// exactly when the reference says so -- PC outside [origin, 0xFE00) (0xFFFF included), an armed breakpoint at PC,
// HALT at PC, or the step-over return address reached -- and otherwise returns Proceed with the documented
// successor status, the machine untouched, no program output, breakpoints untouched and the marker re-armed.
// The only command offered is `quit` (= end of input), so the paused branch is observable too.
fn running_step_body(st: St) {
    crate::features::verif_h::set_stack(kani::any());
    let mut s = any_state();
    let orig = orig_of(&s);
    let mut d = any_debugger(&mut s, st);
    crate::output::verif_h::set_minimal_any();
    let pc = s.pc();
    let w = peek(&s, pc);
    let out_of_bounds = !(pc >= orig && pc < 0xFE00);
    let armed_bp = bp_has(&d.breakpoints, pc) && d.current_breakpoint != Some(pc);
    let halt = is_halt(w);
    let at_return = matches!(st, St::Over(a) if a == pc);
    let must_pause = out_of_bounds || armed_bp || halt || at_return;
    cmdh::allow(cmdh::C_QUIT, 1, false);
    cmdh::forbid_reads(!must_pause);
    let probe: u16 = kani::any();
    let pre = snap(&s);
    let pre_probe = peek(&s, probe);
    let n_bp = d.breakpoints.len();
    let pre_marker = d.current_breakpoint;

    let act = d.next_action(&mut s);

    assert_unchanged(&s, &pre, probe, pre_probe);
    assert!(capture::len() == 0, "the debugger wrote to the program's output");
    assert!(d.breakpoints.len() == n_bp, "breakpoint list changed by a control step");
    if must_pause {
        assert!(cmdh::reads_done() == 1 && matches!(act, Action::StopDebugger),
            "execution went on past a breakpoint / HALT / out-of-bounds PC / return address without pausing");
        assert!(matches!(d.status, Status::WaitForAction), "paused but status is not WaitForAction");
        if armed_bp {
            assert!(d.current_breakpoint == Some(pc), "fired breakpoint not remembered");
        }
    } else {
        assert!(cmdh::reads_done() == 0 && matches!(act, Action::Proceed), "did not proceed although nothing asks for a pause");
        let expect = match st {
            St::Into(c) => if c > 0 { St::Into(c - 1) } else { St::Wait },
            St::Cont => St::Cont,
            St::Fin => if is_ret(w) { St::Wait } else { St::Fin },
            St::Over(a) => St::Over(a),
            St::Wait => St::Wait,
        };
        assert!(st_of(&d.status) == expect, "successor status differs from the documented stepping behaviour");
        assert!(d.current_breakpoint.is_none(), "breakpoint marker not re-armed after leaving / passing the breakpoint");
        // C16 ranking: Proceed is followed by the execution of an instruction (PC in user space, not HALT)
        assert!(pc >= orig && pc < 0xFE00 && !is_halt(w));
    }
    kani::cover!(must_pause && armed_bp && !halt && !out_of_bounds, "pause at an armed breakpoint");
    kani::cover!(must_pause && pc == 0xFFFF, "pause at PC = 0xFFFF");
    kani::cover!(!must_pause && pre_marker == Some(pc) && bp_has(&d.breakpoints, pc), "resume from the breakpoint just paused at");
    kani::cover!(!must_pause && is_ret(w), "proceed on a RET/RETS");
    core::mem::forget(d);
}
macro_rules! running_step {
    ($name:ident, $st:expr) => {
        dbg_attrs! {
        #[kani::stub(crate::output::Output::print_registers, cut_print_registers)]
        #[kani::stub(crate::output::Output::print_integer, cut_print_integer)]
        #[kani::stub(crate::debugger::Debugger::show_assembly_source, cut_show_assembly)]
        #[kani::stub(crate::debugger::print_help_message, cut_help)]
        fn $name() { running_step_body($st); }}
    };
}
running_step!(c10_running_continue, St::Cont);
running_step!(c10_running_finish, St::Fin);
running_step!(c10_running_stepinto, St::Into(kani::any()));
running_step!(c10_running_stepover, St::Over(kani::any()));

// ------------------------------------------------------------------ C10: resuming commands from a pause
// One arbitrary command from {step, step into k, step out, continue, quit, exit} at a paused debugger
// (status WaitForAction), arbitrary machine.  The next read is cut, so each path is one command.
fn resume_body(mask: u32) {
    let stack_on: bool = kani::any();
    crate::features::verif_h::set_stack(stack_on);
    let mut s = any_state();
    let orig = orig_of(&s);
    let mut d = any_debugger(&mut s, St::Wait);
    crate::output::verif_h::set_minimal_any();
    cmdh::allow(mask, 1, false);
    let pc = s.pc();
    let w = peek(&s, pc);
    let probe: u16 = kani::any();
    let pre = snap(&s);
    let pre_probe = peek(&s, probe);
    let n_bp = d.breakpoints.len();

    let act = d.run_command(&mut s);

    let r = cmdh::last().unwrap();
    assert_unchanged(&s, &pre, probe, pre_probe);
    assert!(capture::len() == 0, "the debugger wrote to the program's output");
    assert!(d.breakpoints.len() == n_bp);
    let halt = is_halt(w);
    match r.sel {
        13 => assert!(matches!(act, Some(Action::StopDebugger))),
        14 => assert!(matches!(act, Some(Action::ExitProgram))),
        _ => {
            assert!(act.is_none());
            let expect = if halt {
                St::Wait // HALT is never executed while the debugger is attached: resuming is refused
            } else {
                match r.sel {
                    1 => St::Over(pc.wrapping_add(1)),
                    2 => St::Into(r.count - 1),
                    3 => if stack_on { St::Fin } else { St::Wait }, // `step out` is tied to the stack feature, as implemented
                    _ => St::Cont,
                }
            };
            assert!(st_of(&d.status) == expect, "resuming command did not arm the documented stepping mode");
        }
    }
    kani::cover!(pc == 0xFFFF, "command issued at PC = 0xFFFF");
    kani::cover!(halt, "command issued while parked on HALT");
    kani::cover!(!halt && pc >= orig && pc < 0xFE00, "command issued at an ordinary PC");
    core::mem::forget(d);
}
macro_rules! resume {
    ($name:ident, $mask:expr) => {
        dbg_attrs! {
        #[kani::stub(crate::output::Output::print_registers, cut_print_registers)]
        #[kani::stub(crate::output::Output::print_integer, cut_print_integer)]
        #[kani::stub(crate::debugger::Debugger::show_assembly_source, cut_show_assembly)]
        #[kani::stub(crate::debugger::print_help_message, cut_help)]
        fn $name() { resume_body($mask); }}
    };
}
resume!(c10_cmd_step, cmdh::C_STEPOVER);
resume!(c10_cmd_stepinto, cmdh::C_STEPINTO);
resume!(c10_cmd_stepout, cmdh::C_STEPOUT);
resume!(c10_cmd_continue, cmdh::C_CONTINUE);
resume!(c10_cmd_quit, cmdh::C_QUIT);
resume!(c10_cmd_exit, cmdh::C_EXIT);

// ------------------------------------------------------------------ C11/C13: break add / remove / list
fn break_body(mask: u32, nbp: usize) {
    let mut s = any_state();
    let orig = orig_of(&s);
    let mut d = any_debugger_n(&mut s, St::Wait, nbp);
    let l = bind_label(orig);
    Output::set_minimal(true); // the non-minimal table printer is text only; minimal mode lists the same addresses
    cmdh::allow(mask, 1, false);
    let probe: u16 = kani::any();
    let pre = snap(&s);
    let pre_probe = peek(&s, probe);
    let n_bp = d.breakpoints.len();
    let q: u16 = kani::any(); // membership probe
    let had_q = bp_has(&d.breakpoints, q);

    let act = d.run_command(&mut s);

    assert!(act.is_none());
    let r = cmdh::last().unwrap();
    assert_unchanged(&s, &pre, probe, pre_probe);
    assert!(capture::len() == 0, "the debugger wrote to the program's output");
    assert!(matches!(d.status, Status::WaitForAction));
    let target = match spec_resolve(&r, pre.pc, orig, l) {
        Some(a) if in_user(orig, a as i32) => Some(a),
        _ => None,
    };
    let now_q = bp_has(&d.breakpoints, q);
    match (r.sel, target) {
        (16, Some(a)) => {
            assert!(bp_has(&d.breakpoints, a), "break add did not add the breakpoint");
            assert!(now_q == (had_q || q == a), "break add disturbed another breakpoint");
        }
        (17, Some(a)) => {
            assert!(!bp_has(&d.breakpoints, a), "break remove left the breakpoint in place");
            assert!(now_q == (had_q && q != a), "break remove disturbed another breakpoint");
        }
        _ => {
            assert!(d.breakpoints.len() == n_bp && now_q == had_q, "refused / listing command changed the breakpoint list");
        }
    }
    // the list stays sorted and duplicate-free, all members in user space
    let n = d.breakpoints.len();
    if n >= 2 {
        assert!(bph::addr_at(&d.breakpoints, 0) < bph::addr_at(&d.breakpoints, 1));
    }
    if n >= 3 {
        assert!(bph::addr_at(&d.breakpoints, 1) < bph::addr_at(&d.breakpoints, 2));
    }
    kani::cover!(target.is_some() || r.sel == 15, "user-space target (or listing)");
    kani::cover!(target.is_none(), "target refused");
    kani::cover!(n != n_bp || r.sel == 15 || nbp == 0, "list changed");
    core::mem::forget(d);
}
macro_rules! break_cmd {
    ($name:ident, $mask:expr, $n:expr) => {
        dbg_attrs! {
        #[kani::stub(crate::output::Output::print_registers, cut_print_registers)]
        #[kani::stub(crate::output::Output::print_integer, cut_print_integer)]
        #[kani::stub(crate::debugger::Debugger::show_assembly_source, cut_show_assembly)]
        #[kani::stub(crate::debugger::print_help_message, cut_help)]
        fn $name() { break_body($mask, $n); }}
    };
}
break_cmd!(c11_break_add_n0, cmdh::C_BREAKADD, 0);
break_cmd!(c11_break_add_n1, cmdh::C_BREAKADD, 1);
break_cmd!(c11_break_add_n2, cmdh::C_BREAKADD, 2);
break_cmd!(c11_break_remove_n1, cmdh::C_BREAKREMOVE, 1);
break_cmd!(c11_break_remove_n2, cmdh::C_BREAKREMOVE, 2);
break_cmd!(c11_break_list_n2, cmdh::C_BREAKLIST, 2);

// ------------------------------------------------------------------ C12: reset
dbg_attrs! {
#[kani::stub(crate::output::Output::print_registers, cut_print_registers)]
#[kani::stub(crate::output::Output::print_integer, cut_print_integer)]
#[kani::stub(crate::debugger::Debugger::show_assembly_source, cut_show_assembly)]
#[kani::stub(crate::debugger::print_help_message, cut_help)]
fn c12_reset() {
    let mut s = any_state();
    let orig = orig_of(&s);
    let mut d = any_debugger(&mut s, St::Wait);
    crate::output::verif_h::set_minimal_any();
    cmdh::allow(cmdh::C_RESET, 1, false);
    let probe: u16 = kani::any();
    let init = snap(&d.initial_state);
    let init_probe = peek(&d.initial_state, probe);
    let act = d.run_command(&mut s);
    assert!(act.is_none());
    // the machine is the initial machine: registers, PC, CC, origin, every memory word (symbolic probe)
    assert_unchanged(&s, &init, probe, init_probe);
    assert!(orig_of(&s) == orig);
    // and the saved initial machine itself is untouched
    assert_unchanged(&d.initial_state, &init, probe, init_probe);
    assert!(capture::len() == 0);
    kani::cover!(init_probe == 0x1234 && init.r[3] == 7);
    core::mem::forget(d);
}}

/// the saved initial machine is never altered: one arbitrary command of any kind except eval (which by
/// signature only receives the live machine) and reset (above)
fn immutable_body(mask: u32) {
    crate::features::verif_h::set_stack(kani::any());
    let mut s = any_state();
    let orig = orig_of(&s);
    let mut d = any_debugger(&mut s, St::Wait);
    let _l = bind_label(orig);
    Output::set_minimal(true);
    cmdh::allow(mask, 1, false);
    let probe: u16 = kani::any();
    let init = snap(&d.initial_state);
    let init_probe = peek(&d.initial_state, probe);
    let _ = d.run_command(&mut s);
    assert_unchanged(&d.initial_state, &init, probe, init_probe);
    assert!(orig_of(&d.initial_state) == orig);
    kani::cover!(cmdh::last().is_some(), "a command was executed");
    core::mem::forget(d);
}
macro_rules! immutable {
    ($name:ident, $mask:expr) => {
        dbg_attrs! { fn $name() { immutable_body($mask); }}
    };
}
immutable!(c12_immutable_move, cmdh::C_MOVE);
immutable!(c12_immutable_goto, cmdh::C_GOTO);
immutable!(c12_immutable_control, cmdh::C_STEPOVER | cmdh::C_STEPINTO | cmdh::C_STEPOUT | cmdh::C_CONTINUE | cmdh::C_QUIT | cmdh::C_EXIT);
immutable!(c12_immutable_break, cmdh::C_BREAKADD | cmdh::C_BREAKREMOVE);
immutable!(c12_immutable_inspect, cmdh::C_PRINT | cmdh::C_REGISTERS | cmdh::C_ECHO | cmdh::C_BREAKLIST);

// ------------------------------------------------------------------ C09/C13: inspection commands change nothing
fn inspection_body(mask: u32, lkind: Option<u8>, is_reg: Option<bool>) {
    cmdh::fix_form(lkind, is_reg);
    let mut s = any_state();
    let orig = orig_of(&s);
    let mut d = any_debugger(&mut s, St::Wait);
    let _l = bind_label(orig);
    Output::set_minimal(true);
    cmdh::allow(mask, 1, false);
    let probe: u16 = kani::any();
    let pre = snap(&s);
    let pre_probe = peek(&s, probe);
    let n_bp = d.breakpoints.len();
    let act = d.run_command(&mut s);
    assert!(act.is_none());
    assert_unchanged(&s, &pre, probe, pre_probe);
    assert!(capture::len() == 0, "inspection command wrote to the program's output");
    assert!(matches!(d.status, Status::WaitForAction));
    assert!(d.breakpoints.len() == n_bp);
    kani::cover!(cmdh::last().is_some(), "a command was executed");
    core::mem::forget(d);
}
macro_rules! inspection {
    ($name:ident, $mask:expr, $lkind:expr, $is_reg:expr) => {
        dbg_attrs! { fn $name() { inspection_body($mask, $lkind, $is_reg); }}
    };
}
inspection!(c13_print_reg, cmdh::C_PRINT, Some(0), Some(true));
inspection!(c13_print_addr, cmdh::C_PRINT, Some(0), Some(false));
inspection!(c13_print_pcoff, cmdh::C_PRINT, Some(1), Some(false));
inspection!(c13_print_label, cmdh::C_PRINT, Some(2), Some(false));
inspection!(c13_registers, cmdh::C_REGISTERS, None, None);
inspection!(c13_echo_help, cmdh::C_ECHO | cmdh::C_HELP, None, None);
inspection!(c13_assembly, cmdh::C_ASSEMBLY, None, Some(false));
inspection!(c13_breaklist, cmdh::C_BREAKLIST, None, None);

// ------------------------------------------------------------------ C11: marker re-arming when an instruction executes
#[kani::proof]
#[kani::unwind(3)]
#[kani::stub(crate::symbol::with_symbol_table, stubs::with_symbol_table)]
#[kani::stub(alloc::fmt::format, stubs::fmt_format)]
fn c11_marker_cleared_on_execute() {
    let mut s = any_state();
    let mut d = any_debugger(&mut s, any_running_st());
    kani::assume(d.instruction_count < u32::MAX);
    let c = d.instruction_count;
    d.increment_instruction_count();
    assert!(d.instruction_count == c + 1);
    assert!(d.current_breakpoint.is_none(),
        "after the marked instruction has executed the breakpoint must be armed again (a self-branch returns to it at once)");
    kani::cover!(true);
    core::mem::forget(d);
}

// ------------------------------------------------------------------ C17: label / PC-offset resolution vs i32 reference
dbg_attrs! { fn c17_resolve_location() {
    let mut s = any_state();
    let orig = orig_of(&s);
    let d = any_debugger(&mut s, St::Wait);
    let l = bind_label(orig);
    Output::set_minimal(true);
    let mut r = cmdh::any_rec(cmdh::C_GOTO);
    kani::assume(r.lkind != 0);
    r.is_reg = false;
    let got = match r.lkind {
        1 => d.resolve_pc_offset(s.pc(), r.off),
        _ => d.resolve_label(&crate::debugger::command::Label { name: cmdh::LABEL_NAME, offset: r.off }),
    };
    let want = spec_resolve(&r, s.pc(), orig, l);
    assert!(got == want, "label / PC-offset location does not resolve to origin + line - 1 + offset (or is refused inside user space)");
    kani::cover!(matches!(want, Some(a) if a >= 0x8000) && r.lkind == 2);
    kani::cover!(want.is_none() && r.lkind == 2);
    core::mem::forget(d);
}}

/// re-exports for harnesses outside `debugger` (the `breakpoint` module is private to it)
pub(crate) fn bp_addr_at(b: &Breakpoints, i: usize) -> u16 {
    bph::addr_at(b, i)
}
pub(crate) fn bp_predefined_at(b: &Breakpoints, i: usize) -> bool {
    bph::predefined_at(b, i)
}
