//! cfg(kani) child of src/debugger/mod.rs: the debugger harnesses (C09-C13, C16, C17).
//!
//! Representation invariant assumed in every harness (re-established by Debugger::new / preserved by
//! every command, see c1x_* harnesses): initial_state.pc == asm_source.orig == state.orig; breakpoints
//! sorted, duplicate-free, all >= orig; every label line L >= 1 with orig + L - 1 <= 0xFFFF.
#![allow(dead_code, unused_imports)]
use super::*;
use crate::debugger::breakpoint::verif_h as bph;
use crate::debugger::command::verif_h::{self as cmdh, Rec};
use crate::runtime::verif_h::{any_state, assert_unchanged, orig_of, peek, set_orig, set_pc, snap};
use crate::symbol::verif_h::table_put;
use crate::verif_h::{capture, stubs, Snap};

// ------------------------------------------------------------------ building a debugger
#[derive(Clone, Copy, PartialEq)]
pub(crate) enum St {
    Wait,
    Over(u16),
    Into(u16),
    Cont,
    Fin,
}
pub(crate) fn st_of(s: &Status) -> St {
    match s {
        Status::WaitForAction => St::Wait,
        Status::StepOver { return_addr } => St::Over(*return_addr),
        Status::StepInto { count } => St::Into(*count),
        Status::Continue => St::Cont,
        Status::Finish => St::Fin,
    }
}
fn status_of(s: St) -> Status {
    match s {
        St::Wait => Status::WaitForAction,
        St::Over(a) => Status::StepOver { return_addr: a },
        St::Into(c) => Status::StepInto { count: c },
        St::Cont => Status::Continue,
        St::Fin => Status::Finish,
    }
}
pub(crate) fn any_running_st() -> St {
    match kani::any::<u8>() % 4 {
        0 => St::Over(kani::any()),
        1 => St::Into(kani::any()),
        2 => St::Cont,
        _ => St::Fin,
    }
}

/// breakpoint list of 0..=2 entries, sorted, duplicate-free, all >= orig
fn any_breakpoints(orig: u16) -> Breakpoints {
    let n: u8 = kani::any();
    kani::assume(n <= 2);
    let b = if n == 0 {
        bph::sorted_0()
    } else if n == 1 {
        bph::sorted_1()
    } else {
        bph::sorted_2()
    };
    if n >= 1 {
        kani::assume(bph::addr_at(&b, 0) >= orig);
    }
    b
}
fn bp_has(b: &Breakpoints, a: u16) -> bool {
    let mut i = 0;
    while i < b.len() {
        if bph::addr_at(b, i) == a {
            return true;
        }
        i += 1;
    }
    false
}

/// An arbitrary debugger over an arbitrary machine.  `light_initial`: the saved initial machine's memory is
/// left out of the symbolic domain of interest (still an unconstrained object).
pub(crate) fn any_debugger(state: &mut RunState, status: St) -> Debugger {
    let orig: u16 = orig_of(state);
    let mut init = any_state();
    set_orig(&mut init, orig);
    set_pc(&mut init, orig);
    Debugger {
        initial_state: init,
        asm_source: AsmSource::from(orig, Vec::new(), ""),
        command_reader: crate::debugger::command::reader::verif_h::dummy_reader(),
        status: status_of(status),
        breakpoints: any_breakpoints(orig),
        current_breakpoint: kani::any(),
        instruction_count: kani::any(),
        should_echo_pc: kani::any(),
    }
}

/// label "ab" bound to a symbolic line number L (1-based, as the parser records it), with orig + L - 1 <= 0xFFFF
pub(crate) fn bind_label(orig: u16) -> u16 {
    let l: u16 = kani::any();
    kani::assume(l >= 1 && (orig as u32) + (l as u32) - 1 <= 0xFFFF);
    table_put(cmdh::LABEL_NAME, l);
    l
}

fn eval_cut(_state: &mut RunState, _line: &str) {
    // `eval` is decided by the C15 harnesses; by its signature it can reach the machine only.
    kani::assume(false);
}

fn is_halt(w: u16) -> bool {
    w / 4096 == 15 && w % 256 == 0x25
}
fn is_ret(w: u16) -> bool {
    (w / 4096 == 0xC && (w / 64) % 8 == 7) || (w / 4096 == 0xD && (w / 1024) % 4 == 2)
}
fn in_user(orig: u16, a: i32) -> bool {
    a >= orig as i32 && a < 0xFE00
}

/// reference resolution of a location (i32 arithmetic): Some(address) iff it denotes a user-space address
/// (absolute addresses are returned as they are; whether they are *usable* is the caller's check)
fn spec_resolve(r: &Rec, pc: u16, orig: u16, label_line: u16) -> Option<u16> {
    match r.lkind {
        0 => Some(r.addr),
        1 => {
            let a = pc as i32 + r.off as i32;
            if in_user(orig, a) {
                Some(a as u16)
            } else {
                None
            }
        }
        _ => {
            let a = orig as i32 + label_line as i32 - 1 + r.off as i32;
            if in_user(orig, a) {
                Some(a as u16)
            } else {
                None
            }
        }
    }
}

macro_rules! dbg_attrs {
    ($(#[$m:meta])* fn $name:ident() $body:block) => {
        #[kani::proof]
        #[kani::unwind(9)]
        #[kani::stub(alloc::fmt::format, stubs::fmt_format)]
        #[kani::stub(crate::symbol::with_symbol_table, stubs::with_symbol_table)]
        #[kani::stub(crate::output::Output::print_fmt, crate::output::verif_h::print_fmt_count)]
        #[kani::stub(crate::debugger::command::Command::read_from, crate::debugger::command::Command::read_from_any)]
        #[kani::stub(crate::debugger::eval::eval, eval_cut)]
        $(#[$m])*
        fn $name() $body
    };
}

// ------------------------------------------------------------------ C13 (+C17 label resolution): move / goto
// one arbitrary `move` or `goto` from an arbitrary machine: exactly the named target changes, and only if it
// is a register or a user-space address; label+offset / PC-offset arithmetic against an i32 reference.
dbg_attrs! { fn c13_move_goto() {
    let mut s = any_state();
    let orig = orig_of(&s);
    let mut d = any_debugger(&mut s, St::Wait);
    let l = bind_label(orig);
    crate::output::verif_h::set_minimal_any();
    cmdh::allow(cmdh::C_MOVE | cmdh::C_GOTO, 1, false);
    let probe: u16 = kani::any();
    let pre = snap(&s);
    let pre_probe = peek(&s, probe);
    let n_bp = d.breakpoints.len();
    let act = d.run_command(&mut s);
    assert!(act.is_none(), "move/goto ended the session");
    let r = cmdh::last().unwrap();
    let mut e = crate::verif_h::Effect { r: pre.r, pc: pre.pc, cc: pre.cc, write: None };
    if r.sel == 7 && r.is_reg {
        e.r[r.reg as usize] = r.value;
    } else {
        let target = match spec_resolve(&r, pre.pc, orig, l) {
            Some(a) if in_user(orig, a as i32) => Some(a),
            _ => None,
        };
        if let Some(a) = target {
            if r.sel == 7 {
                e.write = Some((a, r.value));
            } else {
                e.pc = a;
            }
        }
        kani::cover!(target.is_some() && r.lkind == 2 && r.off < 0);
        kani::cover!(target.is_none() && r.lkind == 1);
        kani::cover!(matches!(target, Some(a) if a >= 0x8000));
    }
    crate::runtime::verif_h::assert_effect(&s, &e, probe, pre_probe);
    assert!(matches!(d.status, Status::WaitForAction), "move/goto changed the execution status");
    assert!(d.breakpoints.len() == n_bp, "move/goto changed the breakpoint list");
    assert!(capture::len() == 0, "debugger command wrote to the program's output");
    core::mem::forget(d);
}}
