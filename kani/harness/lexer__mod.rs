//! cfg(kani) child of src/lexer/mod.rs: symbolic tokens; lexer kernels (C01 H-lit/H-kw, C05 H-lex, C18 gate).
#![allow(dead_code, unused_imports)]
use super::*;
use crate::symbol::verif_h::{any_dir_kind, any_instr_kind, any_register, any_trap_kind, span_of};
use crate::verif_h::stubs;

/// any token kind that can be in a *preprocessed* stream (no Whitespace/Comment/Eof: preprocess drops them)
pub(crate) fn any_kind() -> TokenKind {
    match kani::any::<u8>() % 10 {
        0 => TokenKind::Label,
        1 => TokenKind::Instr(any_instr_kind()),
        2 => TokenKind::Trap(any_trap_kind()),
        3 => TokenKind::Lit(LiteralKind::Hex(kani::any())),
        4 => TokenKind::Lit(LiteralKind::Dec(kani::any())),
        5 => TokenKind::Lit(LiteralKind::Str),
        6 => TokenKind::Dir(any_dir_kind()),
        7 => TokenKind::Reg(any_register()),
        8 => TokenKind::Byte(kani::any()),
        _ => TokenKind::Breakpoint,
    }
}

/// a token with an arbitrary span inside a source of `src_len` ASCII bytes
pub(crate) fn any_token(src_len: usize) -> Token {
    let offs: usize = kani::any();
    let len: usize = kani::any();
    kani::assume(offs <= src_len && len <= src_len && offs + len <= src_len);
    Token::new(any_kind(), span_of(offs, len))
}

pub(crate) fn lit_value(k: &TokenKind) -> Option<u16> {
    match k {
        TokenKind::Lit(LiteralKind::Hex(v)) => Some(*v),
        TokenKind::Lit(LiteralKind::Dec(v)) => Some(*v as u16),
        _ => None,
    }
}

// -------------------------------------------------------------- C05 H-display
/// which kinds the real `Display for TokenKind` can render (the others hit unreachable!)
pub(crate) fn displayable(k: &TokenKind) -> bool {
    !matches!(
        k,
        TokenKind::Whitespace | TokenKind::Comment | TokenKind::Eof | TokenKind::Byte(_) | TokenKind::Breakpoint
    )
}

pub(crate) struct NullWriter;
impl core::fmt::Write for NullWriter {
    fn write_str(&mut self, _s: &str) -> core::fmt::Result {
        Ok(())
    }
}

/// real Display impl, every kind that `displayable` admits: never panics
#[kani::proof]
#[kani::unwind(4)]
fn c05_display_displayable_kinds() {
    let k = any_kind();
    kani::assume(displayable(&k));
    let mut w = NullWriter;
    let r = core::fmt::write(&mut w, format_args!("{}", k));
    assert!(r.is_ok());
    kani::cover!(matches!(k, TokenKind::Dir(_)));
}

/// real Display impl for every kind that can be in a preprocessed token stream (incl. Byte, Breakpoint:
/// a data directive or .break can stand where an operand is expected): never panics
#[kani::proof]
#[kani::unwind(4)]
fn c05_display_all_kinds() {
    let k = any_kind();
    let mut w = NullWriter;
    let r = core::fmt::write(&mut w, format_args!("{}", k));
    assert!(r.is_ok());
    kani::cover!(matches!(k, TokenKind::Byte(_)));
    kani::cover!(matches!(k, TokenKind::Breakpoint));
}

// -------------------------------------------------------------- C05 H-lex: one harness per lexer arm
// The keyword classifiers are over-approximated (any result they can produce), because the 45-way string
// match is where symbolic execution of the lexer explodes; the tables themselves are checked on concrete
// keywords (c01_keywords_*).  Sound for "no panic / spans inside the source".
impl<'s> Cursor<'s> {
    fn check_instruction_any(&self, _ident: &str, _start_pos: usize) -> Result<TokenKind> {
        let r: u8 = kani::any();
        match r % 3 {
            0 => Ok(TokenKind::Label),
            1 => Ok(TokenKind::Instr(any_instr_kind())),
            _ => Err(miette::Report::msg("")),
        }
    }
    fn check_trap_any(&self, _ident: &str) -> TokenKind {
        if kani::any() {
            TokenKind::Label
        } else {
            TokenKind::Trap(any_trap_kind())
        }
    }
    fn check_directive_any(&self, _dir_str: &str) -> Option<TokenKind> {
        if kani::any() {
            None
        } else {
            Some(TokenKind::Dir(any_dir_kind()))
        }
    }
}

static mut TEXT: [u8; 4] = [0; 4];

/// a source text of exactly `n` bytes (n concrete per harness: a str of symbolic length makes every `chars()`
/// step intractable): `first` followed by n-1 symbolic bytes forming valid UTF-8 (ASCII bytes, or for n = 3 one
/// 2-byte character)
fn text_after(first: u8, n: usize) -> &'static str {
    let b1: u8 = kani::any();
    let b2: u8 = kani::any();
    let two_byte = b1 >= 0xC2 && b1 <= 0xDF && b2 >= 0x80 && b2 <= 0xBF;
    kani::assume((b1 < 0x80 && b2 < 0x80) || (two_byte && n == 3));
    unsafe {
        TEXT = [first, b1, b2, 0];
        core::str::from_utf8_unchecked(&*core::ptr::addr_of!(TEXT).cast::<[u8; 4]>())
            .get_unchecked(..n)
    }
}

fn check_lexed(src: &'static str, r: Result<Token>) {
    match r {
        Ok(t) => {
            assert!(t.span.offs() + t.span.len() <= src.len(), "token span outside the source");
        }
        Err(rep) => {
            let mut i = 0;
            while i < rep.labels.len() {
                let l = &rep.labels[i];
                assert!(l.span.offset + l.span.length <= src.len(), "diagnostic label outside the source");
                i += 1;
            }
            core::mem::forget(rep);
        }
    }
}

macro_rules! lex_arm {
    ($name:ident, $first:expr, $n:expr) => {
        #[kani::proof]
        #[kani::unwind(7)]
        #[kani::stub(alloc::fmt::format, stubs::fmt_format)]
        #[kani::stub(Cursor::check_instruction, Cursor::check_instruction_any)]
        #[kani::stub(Cursor::check_trap, Cursor::check_trap_any)]
        #[kani::stub(Cursor::check_directive, Cursor::check_directive_any)]
        fn $name() {
            let src = text_after($first, $n);
            let mut c = Cursor::new(src);
            let r1 = c.advance_token();
            kani::cover!(true, "the arm's token or diagnostic is produced");
            check_lexed(src, r1);
        }
    };
}
lex_arm!(c05_lex_hex_arm_2, b'x', 2usize);
lex_arm!(c05_lex_hex_arm_3, b'x', 3usize);
lex_arm!(c05_lex_zero_arm_2, b'0', 2usize);
lex_arm!(c05_lex_zero_arm_3, b'0', 3usize);
lex_arm!(c05_lex_dec_arm_2, b'#', 2usize);
lex_arm!(c05_lex_dec_arm_3, b'#', 3usize);
lex_arm!(c05_lex_dir_arm_2, b'.', 2usize);
lex_arm!(c05_lex_dir_arm_3, b'.', 3usize);
lex_arm!(c05_lex_str_arm_2, b'"', 2usize);
lex_arm!(c05_lex_str_arm_3, b'"', 3usize);
lex_arm!(c05_lex_reg_arm_2, b'r', 2usize);
lex_arm!(c05_lex_reg_arm_3, b'R', 3usize);
lex_arm!(c05_lex_ident_arm_2, b'a', 2usize);
lex_arm!(c05_lex_ident_arm_3, b'_', 3usize);
lex_arm!(c05_lex_comment_arm_3, b';', 3usize);
lex_arm!(c05_lex_ws_arm_3, b',', 3usize);
lex_arm!(c05_lex_unknown_arm_2, b'!', 2usize);
lex_arm!(c05_lex_unknown_arm_3, b'-', 3usize);

/// the "anything else" arm with a multi-byte first character (2-byte or 4-byte), alone or followed by one
/// symbolic ASCII byte (four harnesses: lengths are concrete)
macro_rules! lex_multibyte {
    ($name:ident, $four:expr, $with_tail:expr) => {
        #[kani::proof]
        #[kani::unwind(7)]
        #[kani::stub(alloc::fmt::format, stubs::fmt_format)]
        #[kani::stub(Cursor::check_instruction, Cursor::check_instruction_any)]
        #[kani::stub(Cursor::check_trap, Cursor::check_trap_any)]
        #[kani::stub(Cursor::check_directive, Cursor::check_directive_any)]
        fn $name() {
            let tail: u8 = kani::any();
            kani::assume(tail < 0x80);
            static mut BUF: [u8; 5] = [0; 5];
            let src: &'static str = unsafe {
                let n = if $four {
                    BUF = [0xF0, 0x9F, 0x98, 0x80, tail];
                    4
                } else {
                    BUF = [0xC3, 0xA9, tail, 0, 0];
                    2
                };
                let n = if $with_tail { n + 1 } else { n };
                core::str::from_utf8_unchecked(&*core::ptr::addr_of!(BUF).cast::<[u8; 5]>()).get_unchecked(..n)
            };
            let mut c = Cursor::new(src);
            let r1 = c.advance_token();
            assert!(r1.is_err(), "a token starting with a non-ASCII character is not LC-3 source");
            check_lexed(src, r1);
            kani::cover!(tail == b' ' || !$with_tail);
        }
    };
}
lex_multibyte!(c05_lex_multibyte_2, false, false);
lex_multibyte!(c05_lex_multibyte_2_tail, false, true);
lex_multibyte!(c05_lex_multibyte_4, true, false);
lex_multibyte!(c05_lex_multibyte_4_tail, true, true);

// -------------------------------------------------------------- C01 H-kw / C18 H-gate-lex: keyword tables on concrete keywords
fn classify(c: &Cursor, ident: &str) -> Option<TokenKind> {
    match c.check_instruction(ident, 0) {
        Ok(TokenKind::Label) => Some(c.check_trap(ident)),
        Ok(k) => Some(k),
        Err(e) => {
            core::mem::forget(e);
            None
        }
    }
}

/// every instruction/trap mnemonic (lowercase, as the classifier expects) maps to its documented kind
#[kani::proof]
#[kani::unwind(12)]
#[kani::stub(alloc::fmt::format, stubs::fmt_format)]
fn c01_keywords_instructions() {
    crate::features::verif_h::set_stack(true);
    let c = Cursor::new("");
    use crate::symbol::Flag;
    use crate::symbol::InstrKind::*;
    use TokenKind::{Instr, Trap};
    assert!(classify(&c, "add") == Some(Instr(Add)));
    assert!(classify(&c, "and") == Some(Instr(And)));
    assert!(classify(&c, "br") == Some(Instr(Br(Flag::Nzp))));
    assert!(classify(&c, "brnzp") == Some(Instr(Br(Flag::Nzp))));
    assert!(classify(&c, "brnz") == Some(Instr(Br(Flag::Nz))));
    assert!(classify(&c, "brzp") == Some(Instr(Br(Flag::Zp))));
    assert!(classify(&c, "brnp") == Some(Instr(Br(Flag::Np))));
    assert!(classify(&c, "brn") == Some(Instr(Br(Flag::N))));
    assert!(classify(&c, "brz") == Some(Instr(Br(Flag::Z))));
    assert!(classify(&c, "brp") == Some(Instr(Br(Flag::P))));
    assert!(classify(&c, "jmp") == Some(Instr(Jmp)));
    assert!(classify(&c, "jsr") == Some(Instr(Jsr)));
    assert!(classify(&c, "jsrr") == Some(Instr(Jsrr)));
    assert!(classify(&c, "ld") == Some(Instr(Ld)));
    assert!(classify(&c, "ldi") == Some(Instr(Ldi)));
    assert!(classify(&c, "ldr") == Some(Instr(Ldr)));
    assert!(classify(&c, "lea") == Some(Instr(Lea)));
    assert!(classify(&c, "not") == Some(Instr(Not)));
    assert!(classify(&c, "ret") == Some(Instr(Ret)));
    assert!(classify(&c, "rti") == Some(Instr(Rti)));
    assert!(classify(&c, "st") == Some(Instr(St)));
    assert!(classify(&c, "sti") == Some(Instr(Sti)));
    assert!(classify(&c, "str") == Some(Instr(Str)));
    assert!(classify(&c, "pop") == Some(Instr(Pop)));
    assert!(classify(&c, "push") == Some(Instr(Push)));
    assert!(classify(&c, "call") == Some(Instr(Call)));
    assert!(classify(&c, "rets") == Some(Instr(Rets)));
    use crate::symbol::TrapKind::*;
    assert!(classify(&c, "trap") == Some(Trap(Generic)));
    assert!(classify(&c, "getc") == Some(Trap(Getc)));
    assert!(classify(&c, "out") == Some(Trap(Out)));
    assert!(classify(&c, "puts") == Some(Trap(Puts)));
    assert!(classify(&c, "in") == Some(Trap(In)));
    assert!(classify(&c, "putsp") == Some(Trap(Putsp)));
    assert!(classify(&c, "halt") == Some(Trap(Halt)));
    assert!(classify(&c, "putn") == Some(Trap(Putn)));
    assert!(classify(&c, "reg") == Some(Trap(Reg)));
    assert!(classify(&c, "loop") == Some(TokenKind::Label));
    assert!(classify(&c, "addd") == Some(TokenKind::Label));
    use crate::symbol::DirKind::*;
    assert!(c.check_directive(".orig") == Some(TokenKind::Dir(Orig)));
    assert!(c.check_directive(".end") == Some(TokenKind::Dir(End)));
    assert!(c.check_directive(".stringz") == Some(TokenKind::Dir(Stringz)));
    assert!(c.check_directive(".blkw") == Some(TokenKind::Dir(Blkw)));
    assert!(c.check_directive(".fill") == Some(TokenKind::Dir(Fill)));
    assert!(c.check_directive(".break") == Some(TokenKind::Dir(Break)));
    assert!(c.check_directive(".word").is_none());
    kani::cover!(true);
}

/// C18: the four stack mnemonics are refused by the lexer when the flag is off (and only they);
/// every other keyword classifies identically whatever the flag
#[kani::proof]
#[kani::unwind(12)]
#[kani::stub(alloc::fmt::format, stubs::fmt_format)]
fn c18_gate_lexer() {
    let on: bool = kani::any();
    crate::features::verif_h::set_stack(on);
    let c = Cursor::new("");
    use crate::symbol::InstrKind::*;
    use TokenKind::Instr;
    let expect = |k| if on { Some(Instr(k)) } else { None };
    assert!(classify(&c, "push") == expect(Push), "push not gated by the stack flag");
    assert!(classify(&c, "pop") == expect(Pop), "pop not gated by the stack flag");
    assert!(classify(&c, "call") == expect(Call), "call not gated by the stack flag");
    assert!(classify(&c, "rets") == expect(Rets), "rets not gated by the stack flag");
    assert!(classify(&c, "add") == Some(Instr(Add)));
    assert!(classify(&c, "ret") == Some(Instr(Ret)));
    assert!(classify(&c, "jsr") == Some(Instr(Jsr)));
    assert!(classify(&c, "pusha") == Some(TokenKind::Label));
    kani::cover!(on);
    kani::cover!(!on);
}

/// C18 H-indep: with the feature cell *uninitialised* (any read of the flag panics) every keyword other than
/// the four stack mnemonics classifies fine: those paths never consult the flag
#[kani::proof]
#[kani::unwind(12)]
#[kani::stub(alloc::fmt::format, stubs::fmt_format)]
fn c18_flag_not_consulted_elsewhere() {
    let c = Cursor::new("");
    use crate::symbol::InstrKind::*;
    use TokenKind::Instr;
    assert!(classify(&c, "add") == Some(Instr(Add)));
    assert!(classify(&c, "ldr") == Some(Instr(Ldr)));
    assert!(classify(&c, "ret") == Some(Instr(Ret)));
    assert!(classify(&c, "halt") == Some(TokenKind::Trap(crate::symbol::TrapKind::Halt)));
    assert!(classify(&c, "popx") == Some(TokenKind::Label));
    kani::cover!(true);
}

// -------------------------------------------------------------- C01/C04 H-lit: literal values
/// hex / decimal literals of 1..3 symbolic digit characters (after the prefix and optional '-'):
/// value == numeric value (two's complement for negatives), token spans the whole literal.
/// Prefix and sign are constants of each harness (a symbolic first character would make every arm of
/// advance_token feasible for the symbolic executor).
fn literal_body(hex: bool, neg: bool, nd: usize) {
    let d: [u8; 3] = kani::any();
    let radix: u32 = if hex { 16 } else { 10 };
    let mut val: i64 = 0;
    static mut LBUF: [u8; 6] = [0; 6];
    let mut n = 0;
    unsafe {
        LBUF[n] = if hex { b'x' } else { b'#' };
        n += 1;
        if neg {
            LBUF[n] = b'-';
            n += 1;
        }
        let mut i = 0;
        while i < 3 {
            if i < nd {
                kani::assume((d[i] as u32) < radix);
                LBUF[n] = if d[i] < 10 { b'0' + d[i] } else { b'a' + d[i] - 10 };
                n += 1;
                val = val * radix as i64 + d[i] as i64;
            }
            i += 1;
        }
    }
    if neg {
        val = -val;
    }
    let src: &'static str = unsafe { core::str::from_utf8_unchecked(&*core::ptr::addr_of!(LBUF).cast::<[u8; 6]>()).get_unchecked(..n) };
    let mut c = Cursor::new(src);
    let r = c.advance_token();
    let want = (val & 0xFFFF) as u16;
    match r {
        Ok(t) => {
            assert!(t.span.offs() == 0 && t.span.len() == n, "literal token does not span the literal");
            let got = lit_value(&t.kind);
            assert!(got == Some(want), "literal token value differs from the numeric value of its spelling");
        }
        Err(e) => {
            core::mem::forget(e);
            assert!(false, "in-range literal rejected");
        }
    }
    kani::cover!(val != 0);
    kani::cover!(val == 0);
}
macro_rules! literal {
    ($name:ident, $hex:expr, $neg:expr, $nd:expr) => {
        #[kani::proof]
        #[kani::unwind(8)]
        #[kani::stub(alloc::fmt::format, stubs::fmt_format)]
        #[kani::stub(Cursor::check_instruction, Cursor::check_instruction_any)]
        #[kani::stub(Cursor::check_trap, Cursor::check_trap_any)]
        fn $name() {
            literal_body($hex, $neg, $nd);
        }
    };
}
literal!(c01_literal_hex_2, true, false, 2);
literal!(c01_literal_hex_3, true, false, 3);
literal!(c01_literal_hex_neg_2, true, true, 2);
literal!(c01_literal_dec_1, false, false, 1);
literal!(c01_literal_dec_3, false, false, 3);
literal!(c01_literal_dec_neg_2, false, true, 2);

/// C18: the gate holds for every letter case of the mnemonic as it appears in the *source text* (the lexer folds
/// case before classifying): one real advance_token on each of the 2^len case variants of the word (enumerated
/// concretely: symbolic letters in front of the 45-way keyword match did not finish in 20 min), flag symbolic
macro_rules! gate_case {
    ($name:ident, $word:expr, $kind:expr, $masks:expr) => {
        #[kani::proof]
        #[kani::unwind(18)]
        #[kani::stub(alloc::fmt::format, stubs::fmt_format)]
        fn $name() {
            let on: bool = kani::any();
            crate::features::verif_h::set_stack(on);
            let w: &[u8] = $word;
            let n = w.len();
            let masks: &[u8] = $masks;
            let mut m = 0;
            while m < masks.len() {
                let mask = masks[m];
                let mut buf = [0u8; 4];
                let mut i = 0;
                while i < n {
                    buf[i] = if (mask >> i) & 1 == 1 { w[i] ^ 0x20 } else { w[i] };
                    i += 1;
                }
                let text: &str = unsafe { core::str::from_utf8_unchecked(&buf[..n]) };
                let src: &'static str = unsafe { &*(text as *const str) };
                let mut c = Cursor::new(src);
                let r = c.advance_token();
                match r {
                    Ok(t) => assert!(on && t.kind == TokenKind::Instr($kind), "stack mnemonic accepted without the flag (or misclassified) in some letter case"),
                    Err(e) => {
                        assert!(!on, "stack mnemonic rejected although the flag is on");
                        core::mem::forget(e);
                    }
                }
                m += 1;
            }
            kani::cover!(on);
            kani::cover!(!on);
        }
    };
}
const ALL16: &[u8] = &[0, 1, 2, 3, 4, 5, 6, 7, 8, 9, 10, 11, 12, 13, 14, 15];
const ALL8: &[u8] = &[0, 1, 2, 3, 4, 5, 6, 7];
/// lower, UPPER, Capitalised
const THREE4: &[u8] = &[0, 15, 1];
const THREE3: &[u8] = &[0, 7, 1];
gate_case!(c18_gate_case_push, b"push", crate::symbol::InstrKind::Push, THREE4);
gate_case!(c18_gate_case_pop, b"pop", crate::symbol::InstrKind::Pop, THREE3);
gate_case!(c18_gate_case_call, b"call", crate::symbol::InstrKind::Call, THREE4);
gate_case!(c18_gate_case_rets, b"rets", crate::symbol::InstrKind::Rets, THREE4);
gate_case!(c18_gate_case_push_all, b"push", crate::symbol::InstrKind::Push, ALL16);
gate_case!(c18_gate_case_pop_all, b"pop", crate::symbol::InstrKind::Pop, ALL8);
gate_case!(c18_gate_case_call_all, b"call", crate::symbol::InstrKind::Call, ALL16);
gate_case!(c18_gate_case_rets_all, b"rets", crate::symbol::InstrKind::Rets, ALL16);

// -------------------------------------------------------------- C04 H-litrange: 16-bit range of literals
/// `#ddddd` / `#-ddddd` (5 symbolic digits) and `xHHHHH`: accepted as a literal iff the value is within
/// [-32768, 65535]; an accepted literal carries the value modulo 2^16
fn litrange_body(hex: bool, neg: bool, nd: usize) {
    let d: [u8; 5] = kani::any();
    let radix: u32 = if hex { 16 } else { 10 };
    let mut val: i64 = 0;
    static mut RBUF: [u8; 8] = [0; 8];
    let mut n = 0;
    unsafe {
        RBUF[n] = if hex { b'x' } else { b'#' };
        n += 1;
        if neg {
            RBUF[n] = b'-';
            n += 1;
        }
        let mut i = 0;
        while i < nd {
            kani::assume((d[i] as u32) < radix);
            RBUF[n] = if d[i] < 10 { b'0' + d[i] } else { b'a' + d[i] - 10 };
            n += 1;
            val = val * radix as i64 + d[i] as i64;
            i += 1;
        }
    }
    if neg {
        val = -val;
    }
    let src: &'static str = unsafe { core::str::from_utf8_unchecked(&*core::ptr::addr_of!(RBUF).cast::<[u8; 8]>()).get_unchecked(..n) };
    let mut c = Cursor::new(src);
    let r = c.advance_token();
    let fits = val >= -32768 && val <= 65535;
    match r {
        Ok(t) => {
            // an out-of-range hex spelling may fall back to a label (never to a literal)
            match lit_value(&t.kind) {
                Some(v) => assert!(fits && v == (val & 0xFFFF) as u16, "out-of-range literal accepted, or literal value wrong"),
                None => assert!(!fits && hex, "in-range literal not lexed as a literal"),
            }
        }
        Err(e) => {
            assert!(!fits, "in-range literal rejected");
            core::mem::forget(e);
        }
    }
    kani::cover!(fits && val != 0);
    kani::cover!(!fits);
}
macro_rules! litrange {
    ($name:ident, $hex:expr, $neg:expr, $nd:expr) => {
        #[kani::proof]
        #[kani::unwind(9)]
        #[kani::stub(alloc::fmt::format, stubs::fmt_format)]
        #[kani::stub(Cursor::check_instruction, Cursor::check_instruction_any)]
        #[kani::stub(Cursor::check_trap, Cursor::check_trap_any)]
        fn $name() {
            litrange_body($hex, $neg, $nd);
        }
    };
}
litrange!(c04_litrange_dec5, false, false, 5);
litrange!(c04_litrange_dec_neg5, false, true, 5);
litrange!(c04_litrange_hex5, true, false, 5);
litrange!(c04_litrange_hex_neg4, true, true, 4);

// -------------------------------------------------------------- C01 H-sep: separators
/// the separator set is exactly {space, tab, LF, VT?, FF, CR, ',', ':'} as documented (ASCII whitespace plus comma
/// and colon), for every char
#[kani::proof]
fn c01_separator_set() {
    let c: char = kani::any();
    let want = matches!(c, ' ' | '\t' | '\n' | '\x0C' | '\r' | ',' | ':');
    assert!(is_whitespace(c) == want, "separator set differs from ASCII whitespace + ',' + ':'");
    assert!(is_reg_num(c) == matches!(c, '0'..='7'));
    assert!(is_id(c) == (c.is_ascii_alphanumeric() || c == '_'));
    kani::cover!(c == ':');
    kani::cover!(c == '\u{a0}');
}

/// a register token preceded by any separator lexes to the same register: `<sep>rN` via advance_real
/// (separator and letter case enumerated concretely -- a symbolic first character makes every arm of
/// advance_token feasible for the symbolic executor: >35 min -- the register number is symbolic)
#[kani::proof]
#[kani::unwind(14)]
#[kani::stub(alloc::fmt::format, stubs::fmt_format)]
#[kani::stub(Cursor::check_instruction, Cursor::check_instruction_any)]
#[kani::stub(Cursor::check_trap, Cursor::check_trap_any)]
fn c01_separator_before_register() {
    let d: u8 = kani::any();
    kani::assume(d < 8);
    let seps = [b' ', b'\t', b'\n', b'\r', b',', b':'];
    let mut k = 0;
    while k < 6 {
        let sep = seps[k % 6];
        let upper = k % 2 == 1;
        let buf = [sep, if upper { b'R' } else { b'r' }, b'0' + d];
        let text: &str = unsafe { core::str::from_utf8_unchecked(&buf[..]) };
        let src: &'static str = unsafe { &*(text as *const str) };
        let mut c = Cursor::new(src);
        match c.advance_real() {
            Ok(t) => {
                assert!(matches!(t.kind, TokenKind::Reg(r) if r as u8 == d), "register after a separator not lexed as that register");
                assert!(t.span.offs() == 1 && t.span.len() == 2, "register token span wrong");
            }
            Err(e) => {
                core::mem::forget(e);
                assert!(false, "register after a separator rejected");
            }
        }
        k += 1;
    }
    kani::cover!(d == 7);
}
