//! cfg(kani) child of src/lexer/mod.rs: symbolic tokens; lexer kernels (C01 H-lit/H-kw, C05 H-lex, C18 gate).
#![allow(dead_code, unused_imports)]
use super::*;
use crate::symbol::verif_h::{any_dir_kind, any_instr_kind, any_register, any_trap_kind, span_of};
use crate::verif_h::stubs;

/// any token kind that can be in a *preprocessed* stream (no Whitespace/Comment/Eof: preprocess drops them)
pub(crate) fn any_kind() -> TokenKind {
    match kani::any::<u8>() % 10 {
        0 => TokenKind::Label,
        1 => TokenKind::Instr(any_instr_kind()),
        2 => TokenKind::Trap(any_trap_kind()),
        3 => TokenKind::Lit(LiteralKind::Hex(kani::any())),
        4 => TokenKind::Lit(LiteralKind::Dec(kani::any())),
        5 => TokenKind::Lit(LiteralKind::Str),
        6 => TokenKind::Dir(any_dir_kind()),
        7 => TokenKind::Reg(any_register()),
        8 => TokenKind::Byte(kani::any()),
        _ => TokenKind::Breakpoint,
    }
}

/// a token with an arbitrary span inside a source of `src_len` ASCII bytes
pub(crate) fn any_token(src_len: usize) -> Token {
    let offs: usize = kani::any();
    let len: usize = kani::any();
    kani::assume(offs <= src_len && len <= src_len && offs + len <= src_len);
    Token::new(any_kind(), span_of(offs, len))
}

pub(crate) fn lit_value(k: &TokenKind) -> Option<u16> {
    match k {
        TokenKind::Lit(LiteralKind::Hex(v)) => Some(*v),
        TokenKind::Lit(LiteralKind::Dec(v)) => Some(*v as u16),
        _ => None,
    }
}

// -------------------------------------------------------------- C05 H-display
/// which kinds the real `Display for TokenKind` can render (the others hit unreachable!)
pub(crate) fn displayable(k: &TokenKind) -> bool {
    !matches!(
        k,
        TokenKind::Whitespace | TokenKind::Comment | TokenKind::Eof | TokenKind::Byte(_) | TokenKind::Breakpoint
    )
}

struct NullWriter;
impl core::fmt::Write for NullWriter {
    fn write_str(&mut self, _s: &str) -> core::fmt::Result {
        Ok(())
    }
}

/// real Display impl, every kind that `displayable` admits: never panics
#[kani::proof]
#[kani::unwind(4)]
fn c05_display_displayable_kinds() {
    let k = any_kind();
    kani::assume(displayable(&k));
    let mut w = NullWriter;
    let r = core::fmt::write(&mut w, format_args!("{}", k));
    assert!(r.is_ok());
    kani::cover!(matches!(k, TokenKind::Dir(_)));
}
