//! cfg(kani) child of src/debugger/command/parse/name.rs: C14 H-names.
#![allow(dead_code, unused_imports)]
use super::*;

/// a copy of `name` (<= 24 ASCII bytes) with the case of each letter flipped according to a symbolic mask
fn case_variant<'a>(name: &'a str, mask: u32, buf: &'a mut [u8; 24]) -> &'a str {
    let b = name.as_bytes();
    let n = b.len();
    if n > 24 {
        return name; // (a name longer than the buffer is checked in its written spelling only)
    }
    let mut i = 0;
    while i < n {
        let c = b[i];
        buf[i] = if c.is_ascii_alphabetic() && (mask >> i) & 1 == 1 { c ^ 0x20 } else { c };
        i += 1;
    }
    unsafe { core::str::from_utf8_unchecked(&buf[..n]) }
}

fn earlier_has(entries: &'static [CommandNameEntry], upto: usize, cand: &str) -> bool {
    let mut e = 0;
    while e < upto {
        let mut k = 0;
        while k < entries[e].candidates.len() {
            if entries[e].candidates[k].eq_ignore_ascii_case(cand) {
                return true;
            }
            k += 1;
        }
        e += 1;
    }
    false
}

/// every candidate of a table, in every letter case (symbolic case mask), resolves to its own entry's
/// command -- and no candidate is shadowed by an earlier entry (the resolution is unambiguous)
fn table_total(entries: &'static [CommandNameEntry]) {
    table_range(entries, 0, entries.len());
}
/// entries lo..hi of the table (one harness per slice keeps each query small)
fn table_range(entries: &'static [CommandNameEntry], lo: usize, hi: usize) {
    // every letter case: symbolic case mask (feasible for one table entry per harness: each name is compared
    // case-insensitively against the whole table)
    let mask: u32 = kani::any();
    table_range_mask(entries, lo, hi, mask);
    kani::cover!(mask & 0xFF == 0xA5);
}
fn table_range_mask(entries: &'static [CommandNameEntry], lo: usize, hi: usize, mask: u32) {
    let mut e = lo;
    while e < hi && e < entries.len() {
        let mut k = 0;
        while k < entries[e].candidates.len() {
            let cand = entries[e].candidates[k];
            assert!(!earlier_has(entries, e, cand), "a command name is listed for two commands: the later one is unreachable");
            let mut buf = [0u8; 24];
            let v = case_variant(cand, mask, &mut buf);
            let got = find_name_match(v, entries);
            assert!(matches!(got, Ok(n) if n == entries[e].name), "a documented command name / alias does not resolve to its command in some letter case");
            k += 1;
        }
        // misspellings are suggestions, never commands -- unless the same word is a real name of another command
        let mut m = 0;
        while m < entries[e].misspellings.len() {
            let miss = entries[e].misspellings[m];
            let mut buf = [0u8; 24];
            let v = case_variant(miss, mask, &mut buf);
            let got = find_name_match(v, entries);
            if !earlier_has(entries, entries.len(), miss) {
                assert!(matches!(got, Err(Some(_))), "a documented misspelling is not answered with a suggestion");
            }
            m += 1;
        }
        e += 1;
    }
}

macro_rules! names_slice {
    ($name:ident, $e:expr) => {
        #[kani::proof]
        #[kani::unwind(26)]
        fn $name() {
            assert!(COMMANDS.len() == 18, "command table changed size: adjust the per-entry harnesses");
            table_range(COMMANDS, $e, $e + 1);
        }
    };
}
names_slice!(c14_names_entry_00, 0);
names_slice!(c14_names_entry_01, 1);
names_slice!(c14_names_entry_02, 2);
names_slice!(c14_names_entry_03, 3);
names_slice!(c14_names_entry_04, 4);
names_slice!(c14_names_entry_05, 5);
names_slice!(c14_names_entry_06, 6);
names_slice!(c14_names_entry_07, 7);
names_slice!(c14_names_entry_08, 8);
names_slice!(c14_names_entry_09, 9);
names_slice!(c14_names_entry_10, 10);
names_slice!(c14_names_entry_11, 11);
names_slice!(c14_names_entry_12, 12);
names_slice!(c14_names_entry_13, 13);
names_slice!(c14_names_entry_14, 14);
names_slice!(c14_names_entry_15, 15);
names_slice!(c14_names_entry_16, 16);
names_slice!(c14_names_entry_17, 17);

/// `name_matches` is case-insensitive on every list of the table: each listed word (name, alias or misspelling),
/// in every letter case (symbolic case mask), still matches the list it is written in
fn lists_case_insensitive(entries: &'static [CommandNameEntry], lo: usize, hi: usize) {
    let mask: u32 = kani::any();
    let mut e = lo;
    while e < hi && e < entries.len() {
        let mut k = 0;
        while k < entries[e].candidates.len() {
            let mut buf = [0u8; 24];
            let v = case_variant(entries[e].candidates[k], mask, &mut buf);
            assert!(name_matches(v, entries[e].candidates), "a documented command name / alias is not recognised in some letter case");
            k += 1;
        }
        let mut m = 0;
        while m < entries[e].misspellings.len() {
            let mut buf = [0u8; 24];
            let v = case_variant(entries[e].misspellings[m], mask, &mut buf);
            assert!(name_matches(v, entries[e].misspellings), "a documented misspelling is not recognised in some letter case");
            m += 1;
        }
        e += 1;
    }
    kani::cover!(mask & 0xFF == 0xA5);
}
#[kani::proof]
#[kani::unwind(26)]
fn c14_names_lists_case_insensitive_lo() {
    lists_case_insensitive(COMMANDS, 0, 9);
}
#[kani::proof]
#[kani::unwind(26)]
fn c14_names_lists_case_insensitive_hi() {
    // (entries 9.. whatever the table's length: a table that grows past the unwind bound shows as an unwinding
    //  failure = inconclusive, never as a violation)
    lists_case_insensitive(COMMANDS, 9, usize::MAX);
}
/// the table as written (canonical spelling) is unambiguous: every name / alias resolves to its own entry's command,
/// no name is listed for two commands, and a misspelling that is not also a real name yields a suggestion
#[kani::proof]
#[kani::unwind(26)]
fn c14_names_table_unambiguous() {
    table_range_mask(COMMANDS, 0, COMMANDS.len(), 0);
}
#[kani::proof]
#[kani::unwind(26)]
fn c14_names_subcommands() {
    table_total(SUBCOMMANDS_STEP);
    table_total(SUBCOMMANDS_BREAK);
    let mask: u32 = kani::any();
    let mut buf = [0u8; 24];
    assert!(name_matches(case_variant("step", mask, &mut buf), COMMAND_STEP));
    let mut buf = [0u8; 24];
    assert!(name_matches(case_variant("b", mask, &mut buf), COMMAND_BREAK));
    let mut buf = [0u8; 24];
    assert!(name_matches(case_variant("break", mask, &mut buf), COMMAND_BREAK));
}
