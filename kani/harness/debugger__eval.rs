//! cfg(kani) child of src/debugger/eval.rs: C15.
//!
//! `eval` = parse one instruction, refuse the off-limits ones, resolve labels, encode, execute.  The
//! harnesses run the real `eval_inner` with (a) `AsmParser::new_simple` replaced by a parser over a token
//! vector (lexing is C05's subject) and (b) `RunState::execute` replaced by a recorder: what must hold is
//! that exactly the ISA encoding of the given instruction is executed once, on the untouched machine, with
//! label operands denoting the label's address *relative to the current PC*; what the encoding then does
//! is C02.
#![allow(dead_code, unused_imports)]
use super::*;
use crate::lexer::verif_h::any_token;
use crate::lexer::{LiteralKind, Token, TokenKind};
use crate::parser::verif_h::{instr_token, label_token, lit_token, reg_token, set_simple_tokens, trap_token};
use crate::runtime::verif_h::{any_exec_effect, any_state, assert_unchanged, exec_calls, exec_instr, exec_pc, orig_of, peek, snap};
use crate::symbol::verif_h::{any_flag, any_register, any_trap_kind, table_put};
use crate::symbol::{Flag, InstrKind, Register, TrapKind};
use crate::verif_h::{capture, fits_signed, stubs};

macro_rules! eval_attrs {
    ($(#[$m:meta])* fn $name:ident() $body:block) => {
        #[kani::proof]
        #[kani::unwind(9)]
        #[kani::stub(alloc::fmt::format, stubs::fmt_format)]
        #[kani::stub(crate::symbol::with_symbol_table, stubs::with_symbol_table)]
        #[kani::stub(crate::output::Output::print_fmt, crate::output::verif_h::print_fmt_count)]
        #[kani::stub(crate::parser::AsmParser::new_simple, crate::parser::verif_h::new_simple_from_tokens)]
        #[kani::stub(crate::runtime::RunState::execute, crate::runtime::verif_h::execute_recorder)]
        #[kani::stub(crate::error::parse_generic_unexpected, crate::parser::verif_h::generic_unexpected_contract)]
        #[kani::stub(crate::error::parse_lit_range, crate::parser::verif_h::lit_range_contract)]
        #[kani::stub(crate::error::parse_eof, crate::parser::verif_h::eof_contract)]
        #[kani::stub(std::process::exit, crate::verif_h::exits::never)]
        $(#[$m])*
        fn $name() $body
    };
}

fn rn(r: Register) -> u16 {
    r as u16
}

/// run eval_inner on the tokens; returns (machine snapshot comparison is done by the caller)
static mut EFFECT: (u16, u16, u16) = (0, 0, 0);
fn run_eval(s: &mut RunState, toks: Vec<Token>) -> bool {
    set_simple_tokens(toks);
    unsafe {
        EFFECT = any_exec_effect();
    }
    let r = eval_inner(s, "x");
    let ok = r.is_ok();
    core::mem::forget(r);
    ok
}

/// expected: executed exactly once, the given word, on the untouched machine
/// registers, PC and CC unchanged.  (Memory is not probed in the recorder-based harnesses: eval hands the machine
/// to nothing but `execute`, which is the recorder there; leaving the 64K object unread keeps these harnesses,
/// which are full of small heap strings, out of the array-theory mode that such strings do not survive.)
fn regs_unchanged(s: &RunState, pre: &crate::verif_h::Snap) {
    let now = snap(s);
    assert!(now.r[0] == pre.r[0] && now.r[1] == pre.r[1] && now.r[2] == pre.r[2] && now.r[3] == pre.r[3], "eval changed a register by itself");
    assert!(now.r[4] == pre.r[4] && now.r[5] == pre.r[5] && now.r[6] == pre.r[6] && now.r[7] == pre.r[7], "eval changed a register by itself");
    assert!(now.pc == pre.pc, "eval changed the PC by itself");
    assert!(now.cc == pre.cc, "eval changed the condition code by itself");
}
fn expect_executed(s: &RunState, pre: &crate::verif_h::Snap, _probe: u16, _pre_probe: u16, word: u16) {
    assert!(exec_calls() == 1, "eval did not execute the instruction exactly once");
    assert!(exec_instr() == word, "eval executed another encoding than the instruction it was given");
    assert!(exec_pc() == pre.pc, "eval moved the PC before executing");
    // the machine is exactly what the execution left: pre-state plus the recorder's arbitrary effect
    let (new_pc, reg, val) = unsafe { EFFECT };
    let mut want = *pre;
    want.pc = new_pc;
    want.r[reg as usize] = val;
    regs_unchanged(s, &want);
}
fn expect_refused(s: &RunState, pre: &crate::verif_h::Snap, _probe: u16, _pre_probe: u16) {
    assert!(exec_calls() == 0, "eval executed something it must refuse");
    regs_unchanged(s, pre);
    assert!(capture::len() == 0);
}

// ---- register / immediate forms
eval_attrs! { fn c15_eval_add() {
    let mut s = any_state();
    let (dr, sr, r3) = (any_register(), any_register(), any_register());
    let v: u16 = kani::any();
    let third_reg: bool = kani::any();
    let third = if third_reg { reg_token(r3) } else { lit_token(kani::any(), v) };
    let probe: u16 = kani::any();
    let pre = snap(&s);
    let pre_probe: u16 = 0;
    let _ = run_eval(&mut s, vec![instr_token(InstrKind::Add), reg_token(dr), reg_token(sr), third]);
    if third_reg {
        expect_executed(&s, &pre, probe, pre_probe, 0x1000 + rn(dr) * 512 + rn(sr) * 64 + rn(r3));
    } else if fits_signed(v, 5) {
        expect_executed(&s, &pre, probe, pre_probe, 0x1000 + rn(dr) * 512 + rn(sr) * 64 + 32 + v % 32);
    } else {
        expect_refused(&s, &pre, probe, pre_probe);
    }
    kani::cover!(!third_reg && v == 0xFFFF);
    kani::cover!(!third_reg && v == 16);
}}

eval_attrs! { fn c15_eval_ldr() {
    let mut s = any_state();
    let (a, b) = (any_register(), any_register());
    let v: u16 = kani::any();
    let probe: u16 = kani::any();
    let pre = snap(&s);
    let pre_probe: u16 = 0;
    let _ = run_eval(&mut s, vec![instr_token(InstrKind::Ldr), reg_token(a), reg_token(b), lit_token(kani::any(), v)]);
    if fits_signed(v, 6) {
        expect_executed(&s, &pre, probe, pre_probe, 0x6000 + rn(a) * 512 + rn(b) * 64 + v % 64);
    } else {
        expect_refused(&s, &pre, probe, pre_probe);
    }
    kani::cover!(v == 0xFFE0);
}}

// ---- label operands: the label denotes orig + line - 1 wherever the PC is
macro_rules! eval_label {
    ($name:ident, $kind:expr, $base:expr) => {
        eval_attrs! { fn $name() {
            let mut s = any_state();
            let orig = orig_of(&s);
            let l: u16 = kani::any();
            kani::assume(l >= 1 && (orig as u32) + (l as u32) - 1 <= 0xFFFF);
            table_put("ab", l);
            let r = any_register();
            let probe: u16 = kani::any();
            let pre = snap(&s);
            let pre_probe: u16 = 0;
            let _ = run_eval(&mut s, vec![instr_token($kind), reg_token(r), label_token()]);
            // the operand denotes address T; executing at PC (not incremented by eval) it must be PC + sext(field) == T,
            // addresses being taken modulo 2^16 as everywhere in the VM: the distance is the signed 16-bit difference
            let t: u16 = (orig as u32 + l as u32 - 1) as u16;
            let d: i32 = (t.wrapping_sub(pre.pc) as i16) as i32;
            if d >= -256 && d <= 255 {
                expect_executed(&s, &pre, probe, pre_probe, $base + rn(r) * 512 + (d & 0x1FF) as u16);
            } else {
                // too far for the 9-bit field: must be refused, not wrapped onto another address
                expect_refused(&s, &pre, probe, pre_probe);
            }
            kani::cover!(d >= -256 && d <= 255 && pre.pc != orig);
            kani::cover!(d == -1);
            kani::cover!(d > 255);
        }}
    };
}
eval_label!(c15_eval_ld_label, InstrKind::Ld, 0x2000u16);
eval_label!(c15_eval_st_label, InstrKind::St, 0x3000u16);
eval_label!(c15_eval_lea_label, InstrKind::Lea, 0xE000u16);

// ---- off-limits instructions: refused, no effect, session goes on
eval_attrs! { fn c15_eval_refused_br() {
    let mut s = any_state();
    table_put("ab", 1);
    let use_label: bool = kani::any();
    let operand = if use_label { label_token() } else { lit_token(kani::any(), kani::any()) };
    let probe: u16 = kani::any();
    let pre = snap(&s);
    let pre_probe: u16 = 0;
    let _ = run_eval(&mut s, vec![instr_token(InstrKind::Br(any_flag())), operand]);
    expect_refused(&s, &pre, probe, pre_probe);
    kani::cover!(use_label);
    kani::cover!(!use_label);
}}

eval_attrs! { fn c15_eval_traps_and_rti() {
    let mut s = any_state();
    let k = any_trap_kind();
    let v: u16 = kani::any();
    let rti: bool = kani::any();
    let toks = if rti { vec![instr_token(InstrKind::Rti)] } else { vec![trap_token(k), lit_token(kani::any(), v)] };
    let probe: u16 = kani::any();
    let pre = snap(&s);
    let pre_probe: u16 = 0;
    // named traps take no operand: drop the literal for them
    let toks = if !rti && !matches!(k, TrapKind::Generic) { vec![trap_token(k)] } else { toks };
    let _ = run_eval(&mut s, toks);
    let vector: Option<u16> = if rti {
        None
    } else {
        match k {
            TrapKind::Generic => if v <= 0xFF { Some(v) } else { None },
            TrapKind::Getc => Some(0x20),
            TrapKind::Out => Some(0x21),
            TrapKind::Puts => Some(0x22),
            TrapKind::In => Some(0x23),
            TrapKind::Putsp => Some(0x24),
            TrapKind::Halt => Some(0x25),
            TrapKind::Putn => Some(0x26),
            TrapKind::Reg => Some(0x27),
        }
    };
    match vector {
        Some(x) if x >= 0x20 && x <= 0x27 && x != 0x25 => expect_executed(&s, &pre, probe, pre_probe, 0xF000 + x),
        _ => expect_refused(&s, &pre, probe, pre_probe),
    }
    kani::cover!(rti);
    kani::cover!(matches!(k, TrapKind::Generic) && v == 0x25);
    kani::cover!(matches!(k, TrapKind::Generic) && v == 0x28);
    kani::cover!(matches!(k, TrapKind::Putn));
}}

// ---- malformed: missing, surplus and wrong-kind operands => refused, no panic
eval_attrs! { fn c15_eval_malformed_not() {
    let mut s = any_state();
    let n: usize = kani::any();
    kani::assume(n <= 3);
    let t1 = any_token(8);
    let t2 = any_token(8);
    let t3 = any_token(8);
    // eval text is lexed without the directive preprocessor: no Byte / Breakpoint tokens can occur
    kani::assume(!matches!(t1.kind, TokenKind::Byte(_) | TokenKind::Breakpoint));
    kani::assume(!matches!(t2.kind, TokenKind::Byte(_) | TokenKind::Breakpoint));
    kani::assume(!matches!(t3.kind, TokenKind::Byte(_) | TokenKind::Breakpoint));
    let mut toks = vec![instr_token(InstrKind::Not)];
    if n >= 1 { toks.push(t1); }
    if n >= 2 { toks.push(t2); }
    if n >= 3 { toks.push(t3); }
    let probe: u16 = kani::any();
    let pre = snap(&s);
    let pre_probe: u16 = 0;
    let _ = run_eval(&mut s, toks);
    let well_formed = n == 2 && matches!(t1.kind, TokenKind::Reg(_)) && matches!(t2.kind, TokenKind::Reg(_));
    if well_formed {
        let (a, b) = match (t1.kind, t2.kind) { (TokenKind::Reg(a), TokenKind::Reg(b)) => (a, b), _ => unreachable!() };
        expect_executed(&s, &pre, probe, pre_probe, 0x9000 + rn(a) * 512 + rn(b) * 64 + 63);
    } else {
        expect_refused(&s, &pre, probe, pre_probe);
    }
    kani::cover!(well_formed);
    kani::cover!(n == 3 && matches!(t1.kind, TokenKind::Reg(_)) && matches!(t2.kind, TokenKind::Reg(_))); // surplus operand
    kani::cover!(n == 1);
}}

/// first token is not an instruction: refused
eval_attrs! { fn c15_eval_not_an_instruction() {
    let mut s = any_state();
    let t = any_token(8);
    kani::assume(!matches!(t.kind, TokenKind::Instr(_) | TokenKind::Trap(_) | TokenKind::Byte(_) | TokenKind::Breakpoint));
    let empty: bool = kani::any();
    let probe: u16 = kani::any();
    let pre = snap(&s);
    let pre_probe: u16 = 0;
    let _ = run_eval(&mut s, if empty { Vec::new() } else { vec![t] });
    expect_refused(&s, &pre, probe, pre_probe);
    kani::cover!(empty);
    kani::cover!(matches!(t.kind, TokenKind::Dir(_)));
}}

// ---- jumps: RET / JMP r / JSRR r are executed like anything else (exactly their encoding, once), and what the
// execution does to the PC stays (the recorder's arbitrary new PC survives: eval does not "restore" anything)
eval_attrs! { fn c15_eval_jumps() {
    let mut s = any_state();
    let r = any_register();
    let which: u8 = kani::any();
    kani::assume(which < 3);
    let pre = snap(&s);
    let (toks, word) = match which {
        0 => (vec![instr_token(InstrKind::Ret)], 0xC1C0),
        1 => (vec![instr_token(InstrKind::Jmp), reg_token(r)], 0xC000 + rn(r) * 64),
        _ => (vec![instr_token(InstrKind::Jsrr), reg_token(r)], 0x4000 + rn(r) * 64),
    };
    let _ = run_eval(&mut s, toks);
    expect_executed(&s, &pre, 0, 0, word);
    kani::cover!(which == 0);
    kani::cover!(which == 2 && rn(r) == 7);
}}
