//! cfg(kani) child of src/debugger/eval.rs: C15.
//!
//! `eval` = parse one instruction, refuse the off-limits ones, resolve labels, encode, execute.  The
//! harnesses run the real `eval_inner` with (a) `AsmParser::new_simple` replaced by a parser over a token
//! vector (lexing is C05's subject) and (b) `RunState::execute` replaced by a recorder: what must hold is
//! that exactly the ISA encoding of the given instruction is executed once, on the untouched machine, with
//! label operands denoting the label's address *relative to the current PC*; what the encoding then does
//! is C02.
#![allow(dead_code, unused_imports)]
use super::*;
use crate::lexer::verif_h::any_token;
use crate::lexer::{LiteralKind, Token, TokenKind};
use crate::parser::verif_h::{instr_token, label_token, lit_token, reg_token, set_simple_tokens, trap_token};
use crate::runtime::verif_h::{any_exec_effect, light_state as any_state, assert_unchanged, exec_calls, exec_instr, exec_pc, orig_of, peek, snap};
use crate::symbol::verif_h::{any_flag, any_register, any_trap_kind, table_put};
use crate::symbol::{Flag, InstrKind, Register, TrapKind};
use crate::verif_h::{capture, fits_signed, stubs};

// Assume-guarantee split at `AsmParser::parse_simple`: reading the mnemonic back from the token vector makes
// parse_instr's 20-way match symbolic for the symbolic executor (13-15 min per harness, measured), so here
// parse_simple is replaced by its contract -- "returns Ok(stmt) for exactly one well-formed instruction, Err
// otherwise" -- yielding an arbitrary statement of the harness's form; the contract itself is decided by
// parser::verif_h::c01_pe_* (operands -> statement) and c15_parse_simple_* (first-token dispatch, surplus operands).
static mut NEXT_STMT: Option<AirStmt> = None;
impl crate::parser::AsmParser {
    fn parse_simple_contract(&mut self) -> Result<AirStmt> {
        #[allow(static_mut_refs)]
        match unsafe { NEXT_STMT.take() } {
            Some(s) => Ok(s),
            None => Err(miette::Report::msg("")),
        }
    }
}

macro_rules! eval_attrs {
    ($(#[$m:meta])* fn $name:ident() $body:block) => {
        #[kani::proof]
        #[kani::unwind(9)]
        #[kani::stub(alloc::fmt::format, stubs::fmt_format)]
        #[kani::stub(crate::symbol::with_symbol_table, stubs::with_symbol_table)]
        #[kani::stub(crate::output::Output::print_fmt, crate::output::verif_h::print_fmt_count)]
        #[kani::stub(crate::parser::AsmParser::new_simple, crate::parser::verif_h::new_simple_from_tokens)]
        #[kani::stub(crate::parser::AsmParser::parse_simple, crate::parser::AsmParser::parse_simple_contract)]
        #[kani::stub(crate::runtime::RunState::execute, crate::runtime::verif_h::execute_recorder)]
        #[kani::stub(std::process::exit, crate::verif_h::exits::never)]
        $(#[$m])*
        fn $name() $body
    };
}

fn rn(r: Register) -> u16 {
    r as u16
}

static mut EFFECT: (u16, u16, u16) = (0, 0, 0);
/// run eval_inner with parse_simple answering `stmt` (None = "not exactly one well-formed instruction")
fn run_eval(s: &mut RunState, stmt: Option<AirStmt>) -> bool {
    set_simple_tokens(Vec::new());
    unsafe {
        NEXT_STMT = stmt;
        EFFECT = any_exec_effect();
    }
    let r = eval_inner(s, "x");
    let ok = r.is_ok();
    core::mem::forget(r);
    ok
}

fn regs_equal(s: &RunState, want: &crate::verif_h::Snap) {
    let now = snap(s);
    assert!(now.r[0] == want.r[0] && now.r[1] == want.r[1] && now.r[2] == want.r[2] && now.r[3] == want.r[3], "eval changed a register by itself");
    assert!(now.r[4] == want.r[4] && now.r[5] == want.r[5] && now.r[6] == want.r[6] && now.r[7] == want.r[7], "eval changed a register by itself");
    assert!(now.pc == want.pc, "eval changed the PC by itself");
    assert!(now.cc == want.cc, "eval changed the condition code by itself");
}
/// executed exactly once, exactly `word`, at the current PC, on the untouched machine; afterwards the machine is
/// exactly what the execution left (pre-state plus the recorder's arbitrary effect)
fn expect_executed(s: &RunState, pre: &crate::verif_h::Snap, word: u16) {
    assert!(exec_calls() == 1, "eval did not execute the instruction exactly once");
    assert!(exec_instr() == word, "eval executed another encoding than the instruction it was given");
    assert!(exec_pc() == pre.pc, "eval moved the PC before executing");
    let (new_pc, reg, val) = unsafe { EFFECT };
    let mut want = *pre;
    want.pc = new_pc;
    want.r[reg as usize] = val;
    regs_equal(s, &want);
}
fn expect_refused(s: &RunState, pre: &crate::verif_h::Snap) {
    assert!(exec_calls() == 0, "eval executed something it must refuse");
    regs_equal(s, pre);
    assert!(capture::len() == 0);
}

fn imm5_of(v: u8) -> u16 {
    (v as u16) % 32
}

// ---- register / immediate / base+offset forms: executed once as their encoding
eval_attrs! { fn c15_eval_alu_forms() {
    let mut s = any_state();
    let (dr, sr, r3) = (any_register(), any_register(), any_register());
    let v: u8 = kani::any();
    kani::assume(v <= 15 || v >= 0xF0); // what parse_instr yields for an in-range imm5 (c01_pe_add_imm)
    let off: u8 = kani::any();
    kani::assume(off <= 31 || off >= 0xE0);
    let which: u8 = kani::any();
    kani::assume(which < 5);
    let pre = snap(&s);
    let (stmt, word) = match which {
        0 => (AirStmt::Add { dest: dr, src_reg: sr, src_reg_imm: crate::air::ImmediateOrReg::Reg(r3) }, 0x1000 + rn(dr) * 512 + rn(sr) * 64 + rn(r3)),
        1 => (AirStmt::And { dest: dr, src_reg: sr, src_reg_imm: crate::air::ImmediateOrReg::Imm5(v) }, 0x5000 + rn(dr) * 512 + rn(sr) * 64 + 32 + imm5_of(v)),
        2 => (AirStmt::Not { dest: dr, src_reg: sr }, 0x9000 + rn(dr) * 512 + rn(sr) * 64 + 63),
        3 => (AirStmt::LoadOffs { dest: dr, src_reg: sr, offset: off }, 0x6000 + rn(dr) * 512 + rn(sr) * 64 + (off as u16) % 64),
        _ => (AirStmt::StoreOffs { src_reg: dr, dest_reg: sr, offset: off }, 0x7000 + rn(dr) * 512 + rn(sr) * 64 + (off as u16) % 64),
    };
    let _ = run_eval(&mut s, Some(stmt));
    expect_executed(&s, &pre, word);
    kani::cover!(which == 1 && v == 0xFF);
    kani::cover!(which == 4 && off == 0xE0);
}}

// ---- label operands: the label denotes orig + line - 1 wherever the PC is
macro_rules! eval_label {
    ($name:ident, |$r:ident, $l:ident| $stmt:expr, $base:expr) => {
        eval_attrs! { fn $name() {
            let mut s = any_state();
            let orig = orig_of(&s);
            let line: u16 = kani::any();
            kani::assume(line >= 1 && (orig as u32) + (line as u32) - 1 <= 0xFFFF);
            let defined: bool = kani::any();
            if defined {
                table_put("ab", line);
            }
            let $r = any_register();
            // what parse_instr yields for a label operand: Ref(line) when the label is defined (always the case for
            // eval: labels cannot be created), Unfilled(name) otherwise (c01_pe_*_label_before / _fwd)
            let $l = if defined { crate::symbol::Label::Ref(line) } else { crate::symbol::Label::Unfilled(String::from("ab")) };
            let pre = snap(&s);
            let _ = run_eval(&mut s, Some($stmt));
            // the operand denotes address T; executing at PC (not incremented by eval) it must be PC + sext(field) == T,
            // addresses taken modulo 2^16 as everywhere in the VM: the distance is the signed 16-bit difference
            let t: u16 = (orig as u32 + line as u32 - 1) as u16;
            let d: i32 = (t.wrapping_sub(pre.pc) as i16) as i32;
            if defined && d >= -256 && d <= 255 {
                expect_executed(&s, &pre, $base + rn($r) * 512 + (d & 0x1FF) as u16);
            } else {
                // undefined label, or too far for the 9-bit field: refused, not wrapped onto another address
                expect_refused(&s, &pre);
            }
            kani::cover!(defined && d >= -256 && d <= 255 && pre.pc != orig);
            kani::cover!(defined && d > 255);
            kani::cover!(!defined);
        }}
    };
}
eval_label!(c15_eval_ld_label, |r, l| AirStmt::Load { dest: r, src_label: l }, 0x2000u16);
eval_label!(c15_eval_st_label, |r, l| AirStmt::Store { src_reg: r, dest_label: l }, 0x3000u16);
eval_label!(c15_eval_lea_label, |r, l| AirStmt::LoadEAddr { dest: r, src_label: l }, 0xE000u16);
eval_label!(c15_eval_ldi_label, |r, l| AirStmt::LoadInd { dest: r, src_label: l }, 0xA000u16);

// ---- off-limits instructions and malformed text: refused, no effect, session goes on
eval_attrs! { fn c15_eval_refused() {
    let mut s = any_state();
    let which: u8 = kani::any();
    kani::assume(which < 5);
    let v: u8 = kani::any();
    let pre = snap(&s);
    let stmt = match which {
        0 => Some(AirStmt::Branch { flag: any_flag(), dest_label: crate::symbol::Label::Ref(kani::any()) }),
        1 => Some(AirStmt::Interrupt),
        2 => Some(AirStmt::Trap { trap_vect: 0x25 }),
        3 => {
            kani::assume(v < 0x20 || v > 0x27);
            Some(AirStmt::Trap { trap_vect: v })
        }
        _ => None, // not exactly one well-formed instruction (missing / surplus / wrong-kind operands, not an instruction)
    };
    let _ = run_eval(&mut s, stmt);
    expect_refused(&s, &pre);
    kani::cover!(which == 3 && v == 0xA5);
    kani::cover!(which == 4);
    kani::cover!(which == 0);
}}

// ---- the traps the VM knows (x20-x27 except HALT) and jumps are executed like anything else, and what the
// execution does to the PC stays (the recorder's arbitrary new PC survives: eval does not "restore" anything)
eval_attrs! { fn c15_eval_traps_jumps() {
    let mut s = any_state();
    let r = any_register();
    let v: u8 = kani::any();
    kani::assume(v >= 0x20 && v <= 0x27 && v != 0x25);
    let which: u8 = kani::any();
    kani::assume(which < 4);
    let pre = snap(&s);
    let (stmt, word) = match which {
        0 => (AirStmt::Return, 0xC1C0),
        1 => (AirStmt::Jump { src_reg: r }, 0xC000 + rn(r) * 64),
        2 => (AirStmt::JumpSubReg { src_reg: r }, 0x4000 + rn(r) * 64),
        _ => (AirStmt::Trap { trap_vect: v }, 0xF000 + v as u16),
    };
    let _ = run_eval(&mut s, Some(stmt));
    expect_executed(&s, &pre, word);
    kani::cover!(which == 0);
    kani::cover!(which == 3 && v == 0x27);
}}
