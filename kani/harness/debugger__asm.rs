//! cfg(kani) child of src/debugger/asm.rs: C17 H-src.
#![allow(dead_code, unused_imports)]
use super::*;
use crate::air::{AirStmt, AsmLine};
use crate::symbol::verif_h::span_of;

/// address -> statement: statement (address - origin) when that index exists, nothing otherwise; the text
/// shown is exactly the statement's span of the source
#[kani::proof]
#[kani::unwind(6)]
fn c17_source_statement_lookup() {
    let orig: u16 = kani::any();
    let n: usize = kani::any();
    kani::assume(n <= 3);
    const SRC: &str = "ab cdefg";
    let mut ast = Vec::new();
    let mut i = 0;
    while i < 3 {
        if i < n {
            let o: usize = kani::any();
            let l: usize = kani::any();
            kani::assume(o <= 8 && l <= 8 && o + l <= 8);
            ast.push(AsmLine::new((i + 1) as u16, AirStmt::Return, span_of(o, l)));
        }
        i += 1;
    }
    let src = AsmSource::from(orig, ast, SRC);
    let addr: u16 = kani::any();
    let idx: i32 = addr as i32 - orig as i32;
    let got = src.get_source_statement(addr);
    if idx >= 0 && (idx as usize) < n {
        match got {
            Some(st) => {
                assert!(st.line as i32 == idx + 1, "address mapped to another statement");
                let text = src.get_single_line(addr).unwrap();
                assert!(text.len() == st.span.len() && text.as_ptr() == SRC[st.span.offs()..].as_ptr(), "shown text is not the statement's span");
            }
            None => assert!(false, "address holding a statement shows nothing"),
        }
    } else {
        assert!(got.is_none(), "address holding no statement shows one");
        assert!(src.get_single_line(addr).is_none());
    }
    kani::cover!(idx == 2 && n == 3);
    kani::cover!(idx < 0);
    kani::cover!(idx >= 0 && idx as usize >= n);
    core::mem::forget(src);
}
