//! cfg(kani) child of src/debugger/asm.rs: C17 H-src.
#![allow(dead_code, unused_imports)]
use super::*;
use crate::air::{AirStmt, AsmLine};
use crate::symbol::verif_h::span_of;

/// address -> statement: statement (address - origin) when that index exists, nothing otherwise; the text
/// shown is exactly the statement's span of the source.  N statements (concrete per harness).
macro_rules! lookup {
    ($name:ident, $n:expr) => {
        #[kani::proof]
        #[kani::unwind(6)]
        fn $name() {
            let orig: u16 = kani::any();
            let n: usize = $n;
            const SRC: &str = "ab cdefg";
            let mut ast = Vec::new();
            let mut i = 0;
            while i < n {
                let o: usize = kani::any();
                let l: usize = kani::any();
                kani::assume(o <= 8 && l <= 8 && o + l <= 8);
                ast.push(AsmLine::new((i + 1) as u16, AirStmt::Return, span_of(o, l)));
                i += 1;
            }
            let src = AsmSource::from(orig, ast, SRC);
            let addr: u16 = kani::any();
            let idx: i32 = addr as i32 - orig as i32;
            let got = src.get_source_statement(addr);
            if idx >= 0 && (idx as usize) < n {
                match got {
                    Some(st) => {
                        assert!(st.line as i32 == idx + 1, "address mapped to another statement");
                        let text = src.get_single_line(addr).unwrap();
                        assert!(text.len() == st.span.len() && text.as_ptr() == SRC[st.span.offs()..].as_ptr(), "shown text is not the statement's span");
                    }
                    None => assert!(false, "address holding a statement shows nothing"),
                }
            } else {
                assert!(got.is_none(), "address holding no statement shows one");
                assert!(src.get_single_line(addr).is_none());
            }
            kani::cover!(idx < 0);
            kani::cover!(idx >= 0 && idx as usize >= n);
            kani::cover!(n == 0 || (idx >= 0 && (idx as usize) < n));
            core::mem::forget(src);
        }
    };
}
lookup!(c17_source_lookup_0, 0usize);
lookup!(c17_source_lookup_1, 1usize);
lookup!(c17_source_lookup_3, 3usize);

/// `assembly <address>` in minimal mode prints exactly the bytes of the statement's span, also when multi-byte
/// characters precede the statement in the source (spans are byte offsets)
#[kani::proof]
#[kani::unwind(12)]
#[kani::stub(alloc::fmt::format, crate::verif_h::stubs::fmt_format)]
#[kani::stub(crate::output::Output::print_fmt, print_fmt_capture_all)]
fn c17_show_single_line_multibyte() {
    const SRC: &str = "\u{e9}\u{1F600} ab cd"; // 2-byte + 4-byte character, then "ab" at bytes 7..9, "cd" at 10..12
    let second: bool = kani::any();
    let ast = vec![
        AsmLine::new(1, AirStmt::Return, span_of(7, 2)),
        AsmLine::new(2, AirStmt::Return, span_of(10, 2)),
    ];
    let orig: u16 = kani::any();
    kani::assume(orig < 0xFFFE);
    let src = AsmSource::from(orig, ast, SRC);
    crate::output::Output::set_minimal(true);
    src.show_single_line(if second { orig + 1 } else { orig });
    use crate::verif_h::capture;
    assert!(capture::len() == 2, "assembly shows more or less than the statement's text");
    let want: [u32; 2] = if second { ['c' as u32, 'd' as u32] } else { ['a' as u32, 'b' as u32] };
    assert!(capture::at(0) == want[0] && capture::at(1) == want[1], "assembly shows text that is not the statement's");
    kani::cover!(second);
    core::mem::forget(src);
}

/// print stub that captures both channels (the debugger's `assembly` output is the subject here)
fn print_fmt_capture_all(_this: &crate::output::Output, args: core::fmt::Arguments) {
    use core::fmt::Write as _;
    let _ = crate::verif_h::capture::Sink.write_fmt(args);
}
