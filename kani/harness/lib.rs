//! Shared reference models (oracles) and stubs for the Kani harnesses.
//! Attached to src/lib.rs as `crate::verif_h` in the scratch copy only.
//! Written from the LC-3 ISA / README / help.txt, structurally unlike the
//! implementation: sign extension by arithmetic, `i32` ranges, field-by-field
//! encoders.
#![allow(dead_code)]

// ------------------------------------------------------------------ VM spec
/// sign-extend the low `bits` bits of `v`, by arithmetic: (x XOR m) - m
pub(crate) fn sx(v: u16, bits: u32) -> u16 {
    let m: i32 = 1 << (bits - 1);
    let x: i32 = (v as i32) & ((1 << bits) - 1);
    (((x ^ m) - m) & 0xFFFF) as u16
}

/// condition code of a value: 4 = N, 2 = Z, 1 = P
pub(crate) fn cc_of(v: u16) -> u8 {
    if v == 0 {
        2
    } else if v >= 0x8000 {
        4
    } else {
        1
    }
}

#[derive(Clone, Copy)]
pub(crate) struct Snap {
    pub r: [u16; 8],
    pub pc: u16,
    /// 4 N, 2 Z, 1 P, 0 none yet
    pub cc: u8,
}

#[derive(Clone, Copy)]
pub(crate) struct Effect {
    pub r: [u16; 8],
    pub pc: u16,
    pub cc: u8,
    pub write: Option<(u16, u16)>,
}

fn f3(instr: u16, lo: u32) -> usize {
    ((instr >> lo) % 8) as usize
}

/// One instruction of the LC-3 ISA (+ documented stack extension), `pre.pc`
/// being the already incremented PC.  `rd` reads pre-state memory.  Returns
/// `None` for what the machine does not execute through this path (RTI, TRAP,
/// opcode 0xD with the extension off).
pub(crate) fn step(pre: &Snap, instr: u16, stack_on: bool, rd: impl Fn(u16) -> u16) -> Option<Effect> {
    let mut e = Effect { r: pre.r, pc: pre.pc, cc: pre.cc, write: None };
    let op = instr / 4096;
    let dr = f3(instr, 9);
    let sr1 = f3(instr, 6);
    let pcoff9 = pre.pc.wrapping_add(sx(instr, 9));
    match op {
        0x0 => {
            let n = (instr / 2048) % 2 == 1;
            let z = (instr / 1024) % 2 == 1;
            let p = (instr / 512) % 2 == 1;
            if (n && pre.cc == 4) || (z && pre.cc == 2) || (p && pre.cc == 1) {
                e.pc = pcoff9;
            }
        }
        0x1 | 0x5 => {
            let b = if (instr / 32) % 2 == 1 { sx(instr, 5) } else { pre.r[f3(instr, 0)] };
            let a = pre.r[sr1];
            let v = if op == 1 { ((a as u32 + b as u32) % 65536) as u16 } else { a & b };
            e.r[dr] = v;
            e.cc = cc_of(v);
        }
        0x2 => {
            let v = rd(pcoff9);
            e.r[dr] = v;
            e.cc = cc_of(v);
        }
        0x3 => e.write = Some((pcoff9, pre.r[dr])),
        0x4 => {
            // link first, then jump; JSRR R7 jumps to the *old* R7 per the ISA
            // (lace reads the base register after writing R7: see DESIGN.md, lenient)
            let target = if (instr / 2048) % 2 == 1 { pre.pc.wrapping_add(sx(instr, 11)) } else { pre.r[sr1] };
            e.r[7] = pre.pc;
            e.pc = target;
        }
        0x6 => {
            let v = rd(pre.r[sr1].wrapping_add(sx(instr, 6)));
            e.r[dr] = v;
            e.cc = cc_of(v);
        }
        0x7 => e.write = Some((pre.r[sr1].wrapping_add(sx(instr, 6)), pre.r[dr])),
        0x9 => {
            let v = 0xFFFF - pre.r[sr1];
            e.r[dr] = v;
            e.cc = cc_of(v);
        }
        0xA => {
            let v = rd(rd(pcoff9));
            e.r[dr] = v;
            e.cc = cc_of(v);
        }
        0xB => e.write = Some((rd(pcoff9), pre.r[dr])),
        0xC => e.pc = pre.r[sr1],
        0xD => {
            if !stack_on {
                return None;
            }
            let is_callret = (instr / 2048) % 2 == 1;
            let is_push = (instr / 1024) % 2 == 1;
            let sp = pre.r[7];
            match (is_callret, is_push) {
                (true, true) => {
                    // CALL: push PC, jump PC + sext(off10)
                    let nsp = sp.wrapping_sub(1);
                    e.r[7] = nsp;
                    e.write = Some((nsp, pre.pc));
                    e.pc = pre.pc.wrapping_add(sx(instr, 10));
                }
                (true, false) => {
                    // RETS: pop PC
                    e.pc = rd(sp);
                    e.r[7] = sp.wrapping_add(1);
                }
                (false, true) => {
                    // PUSH Rn (the value before SP moves)
                    let nsp = sp.wrapping_sub(1);
                    e.r[7] = nsp;
                    e.write = Some((nsp, pre.r[sr1]));
                }
                (false, false) => {
                    // POP Rn: SP moves, then the register receives the value (POP R7 leaves the value)
                    e.r[7] = sp.wrapping_add(1);
                    e.r[sr1] = rd(sp);
                }
            }
        }
        0xE => {
            e.r[dr] = pcoff9;
            e.cc = cc_of(pcoff9);
        }
        _ => return None,
    }
    Some(e)
}

// ------------------------------------------------------------- assembler spec
/// Reference encoder pieces (i32 arithmetic).
pub(crate) fn enc_pcrel(line: u16, target: u16, bits: u32) -> Option<u16> {
    // the statement on line L (1-based) sits at orig+L-1; PC after fetch is orig+L; the target line T
    // sits at orig+T-1: field = (T-1) - L = T - L - 1, to be representable in `bits` signed bits.
    // Distances are taken modulo 2^16 (line numbers are 16-bit).
    let d16 = target.wrapping_sub(line).wrapping_sub(1);
    let d: i32 = if d16 >= 0x8000 { d16 as i32 - 65536 } else { d16 as i32 };
    let lim: i32 = 1 << (bits - 1);
    if d >= -lim && d < lim {
        Some((d & ((1 << bits) - 1)) as u16)
    } else {
        None
    }
}

/// in-range predicate for a 16-bit literal read as a signed two's complement value
pub(crate) fn fits_signed(v: u16, bits: u32) -> bool {
    let x: i32 = if v >= 0x8000 { v as i32 - 65536 } else { v as i32 };
    let lim: i32 = 1 << (bits - 1);
    -lim <= x && x < lim
}
pub(crate) fn fits_unsigned(v: u16, bits: u32) -> bool {
    (v as u32) < (1u32 << bits)
}

// ------------------------------------------------------------------- stubs
pub(crate) mod stubs {
    use fxhash::FxHashMap;

    /// core's memchr (word-at-a-time search behind `str::find(char)`): 1.7 M symex steps for a 2-byte haystack.
    /// Replacement: the obvious byte loop (same contract: index of the first occurrence).
    pub fn memchr_simple(x: u8, text: &[u8]) -> Option<usize> {
        let mut i = 0;
        while i < text.len() {
            if text[i] == x {
                return Some(i);
            }
            i += 1;
        }
        None
    }

    /// `alloc::fmt::format` replacement: messages are not the subject.
    pub fn fmt_format(_args: core::fmt::Arguments<'_>) -> String {
        String::new()
    }

    /// symbol table behind the thread-local (drop-carrying thread_local ICEs kani-compiler).
    pub static mut TABLE: Option<FxHashMap<String, u16>> = None;

    pub fn with_symbol_table<R, F>(f: F) -> R
    where
        F: FnOnce(&mut FxHashMap<String, u16>) -> R,
    {
        #[allow(static_mut_refs)]
        unsafe {
            if TABLE.is_none() {
                TABLE = Some(FxHashMap::default());
            }
            f(TABLE.as_mut().unwrap())
        }
    }

    /// process exit: record the code and end the path.
    pub static mut EXIT_CODE: Option<i32> = None;
    pub static mut EXPECT_EXIT: Option<i32> = None;
    pub fn exit(code: i32) -> ! {
        unsafe {
            // the harness states beforehand which exit (if any) the reference model allows
            assert!(EXPECT_EXIT == Some(code), "process::exit with a code the reference model does not allow");
            EXIT_CODE = Some(code);
        }
        kani::assume(false);
        loop {}
    }

    /// variants used by reachability twins: witness that exit(code) is reached, then end the path
    pub fn exit_cover_1(code: i32) -> ! {
        kani::cover!(code == 1, "exit(1) reached");
        kani::assume(false);
        loop {}
    }
    pub fn exit_cover_ee(code: i32) -> ! {
        kani::cover!(code == 0xEE, "exit(0xEE) reached");
        kani::assume(false);
        loop {}
    }
}

// ------------------------------------------------------------ more exit stubs
pub(crate) mod exits {
    /// exit must be exit(0xEE) (CPU exception); witnesses reachability; ends the path
    pub fn expect_ee(code: i32) -> ! {
        assert!(code == 0xEE, "exit status is not the documented exception status 0xEE");
        kani::cover!(true, "exception exit reached");
        kani::assume(false);
        loop {}
    }
    /// exit must be exit(1); ends the path
    pub fn expect_1(code: i32) -> ! {
        assert!(code == 1, "exit status is not the documented status 1");
        kani::cover!(true, "exit(1) reached");
        kani::assume(false);
        loop {}
    }
    /// no exit is allowed on any path of this harness
    pub fn never(_code: i32) -> ! {
        assert!(false, "process::exit reached where the reference model continues");
        kani::assume(false);
        loop {}
    }
}

// --------------------------------------------------- program output capture
pub(crate) mod capture {
    use core::fmt::Write;
    pub const CAP: usize = 8;
    pub static mut OUT: [u32; CAP] = [0; CAP];
    pub static mut LEN: usize = 0;
    /// set if anything is printed on the debugger channel (only tracked where a harness asks)
    pub static mut DEBUGGER_CHARS: usize = 0;

    pub struct Sink;
    impl Write for Sink {
        fn write_str(&mut self, s: &str) -> core::fmt::Result {
            for c in s.chars() {
                self.write_char(c)?;
            }
            Ok(())
        }
        fn write_char(&mut self, c: char) -> core::fmt::Result {
            unsafe {
                if LEN < CAP {
                    OUT[LEN] = c as u32;
                }
                LEN += 1;
            }
            Ok(())
        }
    }
    pub fn len() -> usize {
        unsafe { LEN }
    }
    pub fn at(i: usize) -> u32 {
        unsafe { OUT[i] }
    }
}

// ------------------------------------------------------------ command-language spec (C14)
pub(crate) mod cmdspec {
    /// Outcome of the reference integer recogniser.
    #[derive(Clone, Copy, PartialEq)]
    pub enum IntR {
        /// not an integer (the token may still be something else)
        NotInt,
        /// an invalid token
        Bad,
        Val(i64),
    }

    fn digit_in(radix: u32, c: u8) -> Option<i64> {
        let d = match c {
            b'0'..=b'9' => (c - b'0') as i64,
            b'a'..=b'f' => (c - b'a') as i64 + 10,
            b'A'..=b'F' => (c - b'A') as i64 + 10,
            _ => return None,
        };
        if d < radix as i64 {
            Some(d)
        } else {
            None
        }
    }

    /// Reference for the documented integer grammar (README/help + the doc comment of Integer::try_parse):
    /// [sign] [0]? [xXoObB | #] [sign] digits, at most one sign, decimal when it starts with a digit.
    /// Values beyond i32 are Bad.  Written over bytes with an index, i64 accumulation.
    pub fn int(s: &[u8], require_sign: bool) -> IntR {
        let n = s.len();
        if n == 0 {
            return IntR::NotInt;
        }
        let mut i = 0;
        let mut neg = false;
        let mut signs = 0;
        if s[i] == b'+' || s[i] == b'-' {
            neg = s[i] == b'-';
            signs += 1;
            i += 1;
        }
        if require_sign && signs == 0 {
            return IntR::Bad;
        }
        let mut lead0 = false;
        if i < n && s[i] == b'0' {
            lead0 = true;
            i += 1;
        }
        let radix: u32;
        if i == n {
            if lead0 {
                return IntR::Val(0);
            }
            // only a sign
            return if signs > 0 { IntR::Bad } else { IntR::NotInt };
        }
        match s[i] {
            b'b' | b'B' => {
                radix = 2;
                i += 1;
            }
            b'o' | b'O' => {
                radix = 8;
                i += 1;
            }
            b'x' | b'X' => {
                radix = 16;
                i += 1;
            }
            b'#' => {
                if lead0 {
                    return IntR::Bad;
                }
                radix = 10;
                i += 1;
            }
            b'0'..=b'9' => radix = 10,
            b'+' | b'-' => return IntR::Bad,
            _ => {
                return if lead0 || signs > 0 { IntR::Bad } else { IntR::NotInt };
            }
        }
        if i < n && (s[i] == b'+' || s[i] == b'-') {
            neg = s[i] == b'-';
            signs += 1;
            i += 1;
        }
        if signs > 1 {
            return IntR::Bad;
        }
        // what a token that stops being an integer here is: invalid if anything already committed it to be one
        let committed = signs > 0 || lead0 || radix == 10;
        let stop = if committed { IntR::Bad } else { IntR::NotInt };
        if i == n {
            return stop;
        }
        let mut v: i64 = 0;
        while i < n {
            match digit_in(radix, s[i]) {
                None => return stop,
                Some(d) => {
                    v = v * radix as i64 + d;
                    if v > i32::MAX as i64 {
                        return IntR::Bad;
                    }
                }
            }
            i += 1;
        }
        IntR::Val(if neg { -v } else { v })
    }

    pub fn label_start(c: u8) -> bool {
        c.is_ascii_alphabetic() || c == b'_'
    }
    pub fn label_char(c: u8) -> bool {
        c.is_ascii_alphanumeric() || c == b'_'
    }
}
