//! cfg(kani) child of src/runtime.rs: C02 (instruction semantics), C03 (load/run loop), C18 (VM gate).
#![allow(dead_code, unused_imports)]
use super::*;
use crate::verif_h::{cc_of, step, stubs, sx, Effect, Snap};

// ----------------------------------------------------------------- symbolic state
pub(crate) fn any_flag() -> RunFlag {
    match kani::any::<u8>() % 4 {
        0 => RunFlag::N,
        1 => RunFlag::Z,
        2 => RunFlag::P,
        _ => RunFlag::Uninit,
    }
}

/// Fully nondeterministic machine: all 65,536 words unconstrained (kept in the array
/// theory by `--arrays-uf-always`), every register, PC, CC and origin arbitrary.
pub(crate) fn any_state() -> RunState {
    let mem: Box<[u16; MEMORY_MAX]> = unsafe { Box::<[u16; MEMORY_MAX]>::new_uninit().assume_init() };
    RunState {
        mem,
        pc: kani::any(),
        reg: kani::any(),
        flag: any_flag(),
        _psr: kani::any(),
        orig: kani::any(),
    }
}

pub(crate) fn snap(s: &RunState) -> Snap {
    Snap { r: s.reg, pc: s.pc, cc: s.flag as u8 }
}

pub(crate) fn peek(s: &RunState, a: u16) -> u16 {
    s.mem[a as usize]
}
pub(crate) fn poke(s: &mut RunState, a: u16, v: u16) {
    s.mem[a as usize] = v;
}
pub(crate) fn set_orig(s: &mut RunState, o: u16) {
    s.orig = o;
}
pub(crate) fn orig_of(s: &RunState) -> u16 {
    s.orig
}
pub(crate) fn set_pc(s: &mut RunState, pc: u16) {
    s.pc = pc;
}

/// registers, PC, CC and the probe cell equal the reference effect
pub(crate) fn assert_effect(s: &RunState, e: &Effect, probe: u16, pre_probe: u16) {
    assert!(s.reg[0] == e.r[0], "R0 differs from the ISA");
    assert!(s.reg[1] == e.r[1], "R1 differs from the ISA");
    assert!(s.reg[2] == e.r[2], "R2 differs from the ISA");
    assert!(s.reg[3] == e.r[3], "R3 differs from the ISA");
    assert!(s.reg[4] == e.r[4], "R4 differs from the ISA");
    assert!(s.reg[5] == e.r[5], "R5 differs from the ISA");
    assert!(s.reg[6] == e.r[6], "R6 differs from the ISA");
    assert!(s.reg[7] == e.r[7], "R7 differs from the ISA");
    assert!(s.pc == e.pc, "PC differs from the ISA");
    assert!(s.flag as u8 == e.cc, "condition code differs from the ISA");
    let expect = match e.write {
        Some((a, v)) if a == probe => v,
        _ => pre_probe,
    };
    assert!(s.mem[probe as usize] == expect, "memory differs from the ISA (written word or frame)");
}

/// registers, PC, CC and probe cell unchanged
pub(crate) fn assert_unchanged(s: &RunState, pre: &Snap, probe: u16, pre_probe: u16) {
    let e = Effect { r: pre.r, pc: pre.pc, cc: pre.cc, write: None };
    assert_effect(s, &e, probe, pre_probe);
}

// ----------------------------------------------------------------- C02 H-op
macro_rules! op_harness {
    ($name:ident, $op:expr, $method:ident, $stack:expr) => {
        #[kani::proof]
        #[kani::unwind(9)]
        fn $name() {
            let stack: Option<bool> = $stack;
            if let Some(on) = stack {
                crate::features::verif_h::set_stack(on);
            }
            let mut s = any_state();
            let instr: u16 = kani::any();
            kani::assume(instr >> 12 == $op);
            let probe: u16 = kani::any();
            let pre = snap(&s);
            let pre_probe = s.mem[probe as usize];
            let e = step(&pre, instr, true, |a| s.mem[a as usize]).unwrap();
            s.$method(instr);
            assert_effect(&s, &e, probe, pre_probe);
            // vacuity witnesses: memory is really unconstrained, both "changed" and "unchanged" reachable
            kani::cover!(pre_probe == 0x1234 && s.reg[3] == 0xBEEF);
            kani::cover!(s.pc != pre.pc || s.reg[0] != pre.r[0] || s.reg[7] != pre.r[7] || s.flag as u8 != pre.cc || s.mem[probe as usize] != pre_probe);
        }
    };
}

op_harness!(c02_br, 0x0, br, None);
op_harness!(c02_add, 0x1, add, None);
op_harness!(c02_ld, 0x2, ld, None);
op_harness!(c02_st, 0x3, st, None);
op_harness!(c02_jsr, 0x4, jsr, None);
op_harness!(c02_and, 0x5, and, None);
op_harness!(c02_ldr, 0x6, ldr, None);
op_harness!(c02_str, 0x7, str, None);
op_harness!(c02_not, 0x9, not, None);
op_harness!(c02_ldi, 0xA, ldi, None);
op_harness!(c02_sti, 0xB, sti, None);
op_harness!(c02_jmp, 0xC, jmp, None);
op_harness!(c02_stack_on, 0xD, stack, Some(true));
op_harness!(c02_lea, 0xE, lea, None);

/// s_ext against the arithmetic definition, every value and width the handlers use
#[kani::proof]
fn c02_sext() {
    let v: u16 = kani::any();
    let bits: u32 = kani::any();
    kani::assume(bits >= 1 && bits <= 15);
    assert!(RunState::s_ext(v, bits) == sx(v, bits), "s_ext differs from arithmetic sign extension");
    kani::cover!(bits == 11 && v & 0x400 != 0);
}

// opcode 0xD with the extension off: exit(1), nothing executed
#[kani::proof]
#[kani::unwind(9)]
#[kani::stub(std::process::exit, stubs::exit)]
fn c02_stack_off_exits() {
    crate::features::verif_h::set_stack(false);
    let mut s = any_state();
    let instr: u16 = kani::any();
    kani::assume(instr >> 12 == 0xD);
    unsafe {
        stubs::EXPECT_EXIT = Some(1);
    }
    s.stack(instr);
    // exit(1) ends the path; reaching this point means an instruction was executed
    assert!(false, "opcode 0xD executed although the stack extension is off");
}
// reachability twin of the above: the exit stub really is reached with code 1
#[kani::proof]
#[kani::unwind(9)]
#[kani::stub(std::process::exit, stubs::exit_cover_1)]
fn c02_stack_off_exit_reached() {
    crate::features::verif_h::set_stack(false);
    let mut s = any_state();
    let instr: u16 = kani::any();
    kani::assume(instr >> 12 == 0xD);
    s.stack(instr);
}

// ----------------------------------------------------------------- C02 H-dispatch
// execute() through the real OP_TABLE: for every non-trap, non-RTI, non-0xD word the effect equals the
// reference step (ties the table order to the opcode nibble).  Opcode 0xD/0xF/0x8 are cut by assumption:
// their handlers are decided directly (c02_stack_*, c03_trap_*), the table slot is checked by
// c02_dispatch_slots below.
#[kani::proof]
#[kani::unwind(9)]
fn c02_dispatch_effect() {
    let mut s = any_state();
    let instr: u16 = kani::any();
    let op = instr >> 12;
    kani::assume(op != 0x8 && op != 0xD && op != 0xF);
    let probe: u16 = kani::any();
    let pre = snap(&s);
    let pre_probe = s.mem[probe as usize];
    let e = step(&pre, instr, true, |a| s.mem[a as usize]).unwrap();
    s.execute(instr);
    assert_effect(&s, &e, probe, pre_probe);
    kani::cover!(op == 0xB && e.write.is_some());
    kani::cover!(op == 0x0 && s.pc != pre.pc);
}

/// The three remaining table slots point at the stack, rti and trap handlers.
#[kani::proof]
fn c02_dispatch_slots() {
    assert!(RunState::OP_TABLE[0xD] as usize == RunState::stack as usize);
    assert!(RunState::OP_TABLE[0xF] as usize == RunState::trap as usize);
    assert!(RunState::OP_TABLE[0x8] as usize == RunState::rti as usize);
    kani::cover!(true);
}

// ----------------------------------------------------------------- C03 H-loop
static mut LOOP_PRE_PC: u16 = 0;
static mut LOOP_EXECUTED: bool = false;

/// stands in for RunState::execute inside run(): checks what the loop hands over, then ends the path.
fn execute_probe(s: &mut RunState, instr: u16) {
    let pre_pc = unsafe { LOOP_PRE_PC };
    assert!(pre_pc != HALT_ADDRESS, "fetched an instruction although PC is 0xFFFF");
    assert!(pre_pc >= s.orig && pre_pc < USER_MEMORY_END, "fetched an instruction outside [origin, 0xFE00)");
    assert!(instr == s.mem[pre_pc as usize], "executed word is not mem[PC]");
    assert!(s.pc == pre_pc.wrapping_add(1), "PC not incremented before execute");
    kani::cover!(true, "an in-bounds instruction is fetched and handed to execute");
    kani::assume(false);
}

/// no debugger is attached in the C03 loop harnesses; cutting next_action keeps the debugger's code
/// (thread-local symbol table, terminal I/O: kani-compiler ICE) out of the reachable set
fn next_action_absent(_d: &mut Debugger, _s: &mut RunState) -> Action {
    assert!(false, "debugger consulted although none is attached");
    Action::Proceed
}

/// one arbitrary iteration of run() without a debugger, PC inside user space or 0xFFFF: no exit allowed
#[kani::proof]
#[kani::unwind(3)]
#[kani::stub(crate::debugger::Debugger::next_action, next_action_absent)]
#[kani::stub(RunState::execute, execute_probe)]
#[kani::stub(std::process::exit, crate::verif_h::exits::never)]
fn c03_loop_inbounds_or_halt() {
    let s = any_state();
    kani::assume(s.pc == HALT_ADDRESS || (s.pc >= s.orig && s.pc < USER_MEMORY_END));
    let probe: u16 = kani::any();
    let pre = snap(&s);
    let pre_probe = s.mem[probe as usize];
    unsafe {
        LOOP_PRE_PC = s.pc;
    }
    let mut env = RunEnvironment { state: s, debugger: None };
    env.run();
    // only reachable when nothing was fetched: must be the 0xFFFF stop, machine untouched
    assert!(pre.pc == HALT_ADDRESS, "run() returned although PC is inside user space");
    assert_unchanged(&env.state, &pre, probe, pre_probe);
    kani::cover!(true, "normal stop at PC = 0xFFFF");
    core::mem::forget(env);
}

/// one arbitrary iteration with PC outside [origin, 0xFE00) and != 0xFFFF: exit(0xEE), nothing fetched
#[kani::proof]
#[kani::unwind(3)]
#[kani::stub(crate::debugger::Debugger::next_action, next_action_absent)]
#[kani::stub(RunState::execute, execute_probe)]
#[kani::stub(std::process::exit, crate::verif_h::exits::expect_ee)]
fn c03_loop_out_of_bounds() {
    let s = any_state();
    kani::assume(s.pc != HALT_ADDRESS && (s.pc < s.orig || s.pc >= USER_MEMORY_END));
    unsafe {
        LOOP_PRE_PC = s.pc;
    }
    let mut env = RunEnvironment { state: s, debugger: None };
    env.run();
    assert!(false, "run() went on although PC left user space");
}

// ----------------------------------------------------------------- C03 H-load
/// reject side: empty image, or image + implicit HALT not fitting below 0x10000 => exit(0xEE)
/// (symbolic first word; lengths 0..=4 words incl. the origin word)
macro_rules! load_reject {
    ($name:ident, $n:expr) => {
        #[kani::proof]
        #[kani::unwind(6)]
        #[kani::stub(std::process::exit, crate::verif_h::exits::expect_ee)]
        fn $name() {
            let raw: [u16; $n] = kani::any();
            let too_long = $n > 0 && (raw[0] as u32) + ($n as u32) > 0x10000;
            kani::assume($n == 0 || too_long);
            let _ = RunEnvironment::from_raw(&raw[..]);
            assert!(false, "loader accepted an image it cannot hold");
        }
    };
}
load_reject!(c03_load_reject_0, 0);
load_reject!(c03_load_reject_2, 2);
load_reject!(c03_load_reject_3, 3);

/// accept side at a concrete origin: words at origin, HALT after them, PC = origin, R0-6 = 0, R7 = 0xFDFF, CC none,
/// every other cell 0 (symbolic probe)
macro_rules! load_place {
    ($name:ident, $orig:expr, $n:expr) => {
        #[kani::proof]
        #[kani::unwind(8)]
        #[kani::stub(std::process::exit, crate::verif_h::exits::never)]
        fn $name() {
            let mut raw: [u16; $n + 1] = kani::any();
            raw[0] = $orig;
            let env = RunEnvironment::from_raw(&raw[..]).unwrap();
            let s = &env.state;
            assert!(env.debugger.is_none());
            assert!(s.pc == $orig && s.orig == $orig, "PC/origin not the image's first word");
            assert!(s.reg[0] == 0 && s.reg[1] == 0 && s.reg[2] == 0 && s.reg[3] == 0);
            assert!(s.reg[4] == 0 && s.reg[5] == 0 && s.reg[6] == 0, "R0-R6 not zero after load");
            assert!(s.reg[7] == 0xFDFF, "R7 not 0xFDFF after load");
            assert!(s.flag as u8 == 0, "condition code set after load");
            let probe: u16 = kani::any();
            let o: u32 = $orig as u32;
            let p = probe as u32;
            let expect = if p >= o && p < o + $n {
                raw[(p - o) as usize + 1]
            } else if p == o + $n {
                0xF025
            } else {
                0
            };
            assert!(s.mem[probe as usize] == expect, "memory after load differs from the machine model");
            kani::cover!(p == o + $n);
            kani::cover!($n > 0 && p == o && expect == 0xABCD);
            core::mem::forget(env);
        }
    };
}
load_place!(c03_load_place_3000_2, 0x3000u16, 2);
load_place!(c03_load_place_0_1, 0u16, 1);
load_place!(c03_load_place_fffe_1, 0xFFFEu16, 1);
load_place!(c03_load_place_fdff_3, 0xFDFFu16, 3);
