//! cfg(kani) child of src/runtime.rs: C02 (instruction semantics), C03 (load/run loop), C18 (VM gate).
#![allow(dead_code, unused_imports)]
use super::*;
use crate::verif_h::{cc_of, step, stubs, sx, Effect, Snap};

// ----------------------------------------------------------------- symbolic state
pub(crate) fn any_flag() -> RunFlag {
    match kani::any::<u8>() % 4 {
        0 => RunFlag::N,
        1 => RunFlag::Z,
        2 => RunFlag::P,
        _ => RunFlag::Uninit,
    }
}

/// Fully nondeterministic machine: all 65,536 words unconstrained (kept in the array
/// theory by `--arrays-uf-always`), every register, PC, CC and origin arbitrary.
pub(crate) fn any_state() -> RunState {
    let mem: Box<[u16; MEMORY_MAX]> = unsafe { Box::<[u16; MEMORY_MAX]>::new_uninit().assume_init() };
    RunState {
        mem,
        pc: kani::any(),
        reg: kani::any(),
        flag: any_flag(),
        _psr: kani::any(),
        orig: kani::any(),
    }
}

/// A machine whose registers, PC, CC and origin are arbitrary but whose memory is a zero-filled object: for harnesses
/// that never look at memory (the 128 KB nondeterministic object costs ~3 M symex steps when it is not kept in the
/// array theory, and the array theory does not go together with harnesses full of small heap strings).
pub(crate) fn light_state() -> RunState {
    let mem: Box<[u16; MEMORY_MAX]> = unsafe { Box::<[u16; MEMORY_MAX]>::new_zeroed().assume_init() };
    RunState {
        mem,
        pc: kani::any(),
        reg: kani::any(),
        flag: any_flag(),
        _psr: kani::any(),
        orig: kani::any(),
    }
}

/// A run environment around the given machine and debugger.  Built field by field over a zeroed value rather than
/// with a struct literal, so that the harnesses keep compiling if a change adds a field to RunEnvironment.
pub(crate) fn env_with(state: RunState, debugger: Option<Debugger>) -> RunEnvironment {
    let mut e: RunEnvironment = unsafe { core::mem::MaybeUninit::zeroed().assume_init() };
    unsafe {
        core::ptr::write(&mut e.state, state);
        core::ptr::write(&mut e.debugger, debugger);
    }
    e
}

pub(crate) fn snap(s: &RunState) -> Snap {
    Snap { r: s.reg, pc: s.pc, cc: s.flag as u8 }
}

pub(crate) fn peek(s: &RunState, a: u16) -> u16 {
    s.mem[a as usize]
}
pub(crate) fn poke(s: &mut RunState, a: u16, v: u16) {
    s.mem[a as usize] = v;
}
pub(crate) fn set_orig(s: &mut RunState, o: u16) {
    s.orig = o;
}
pub(crate) fn orig_of(s: &RunState) -> u16 {
    s.orig
}
pub(crate) fn set_pc(s: &mut RunState, pc: u16) {
    s.pc = pc;
}

/// registers, PC, CC and the probe cell equal the reference effect
pub(crate) fn assert_effect(s: &RunState, e: &Effect, probe: u16, pre_probe: u16) {
    assert!(s.reg[0] == e.r[0], "R0 differs from the ISA");
    assert!(s.reg[1] == e.r[1], "R1 differs from the ISA");
    assert!(s.reg[2] == e.r[2], "R2 differs from the ISA");
    assert!(s.reg[3] == e.r[3], "R3 differs from the ISA");
    assert!(s.reg[4] == e.r[4], "R4 differs from the ISA");
    assert!(s.reg[5] == e.r[5], "R5 differs from the ISA");
    assert!(s.reg[6] == e.r[6], "R6 differs from the ISA");
    assert!(s.reg[7] == e.r[7], "R7 differs from the ISA");
    assert!(s.pc == e.pc, "PC differs from the ISA");
    assert!(s.flag as u8 == e.cc, "condition code differs from the ISA");
    let expect = match e.write {
        Some((a, v)) if a == probe => v,
        _ => pre_probe,
    };
    assert!(s.mem[probe as usize] == expect, "memory differs from the ISA (written word or frame)");
}

/// registers, PC, CC and probe cell unchanged
pub(crate) fn assert_unchanged(s: &RunState, pre: &Snap, probe: u16, pre_probe: u16) {
    let e = Effect { r: pre.r, pc: pre.pc, cc: pre.cc, write: None };
    assert_effect(s, &e, probe, pre_probe);
}

// ----------------------------------------------------------------- C02 H-op
macro_rules! op_harness {
    ($name:ident, $op:expr, $method:ident, $stack:expr) => {
        #[kani::proof]
        #[kani::unwind(9)]
        fn $name() {
            let stack: Option<bool> = $stack;
            if let Some(on) = stack {
                crate::features::verif_h::set_stack(on);
            }
            let mut s = any_state();
            let instr: u16 = kani::any();
            kani::assume(instr >> 12 == $op);
            let probe: u16 = kani::any();
            let pre = snap(&s);
            let pre_probe = s.mem[probe as usize];
            let e = step(&pre, instr, true, |a| s.mem[a as usize]).unwrap();
            s.$method(instr);
            assert_effect(&s, &e, probe, pre_probe);
            // vacuity witnesses: memory is really unconstrained, both "changed" and "unchanged" reachable
            kani::cover!(pre_probe == 0x1234 && s.reg[3] == 0xBEEF);
            kani::cover!(s.pc != pre.pc || s.reg[0] != pre.r[0] || s.reg[7] != pre.r[7] || s.flag as u8 != pre.cc || s.mem[probe as usize] != pre_probe);
        }
    };
}

op_harness!(c02_br, 0x0, br, None);
op_harness!(c02_add, 0x1, add, None);
op_harness!(c02_ld, 0x2, ld, None);
op_harness!(c02_st, 0x3, st, None);
op_harness!(c02_jsr, 0x4, jsr, None);
op_harness!(c02_and, 0x5, and, None);
op_harness!(c02_ldr, 0x6, ldr, None);
op_harness!(c02_str, 0x7, str, None);
op_harness!(c02_not, 0x9, not, None);
op_harness!(c02_ldi, 0xA, ldi, None);
op_harness!(c02_sti, 0xB, sti, None);
op_harness!(c02_jmp, 0xC, jmp, None);
op_harness!(c02_stack_on, 0xD, stack, Some(true));
op_harness!(c02_lea, 0xE, lea, None);

/// s_ext against the arithmetic definition, every value and width the handlers use
#[kani::proof]
fn c02_sext() {
    let v: u16 = kani::any();
    let bits: u32 = kani::any();
    kani::assume(bits >= 1 && bits <= 15);
    assert!(RunState::s_ext(v, bits) == sx(v, bits), "s_ext differs from arithmetic sign extension");
    kani::cover!(bits == 11 && v & 0x400 != 0);
}

// opcode 0xD with the extension off: exit(1), nothing executed
#[kani::proof]
#[kani::unwind(9)]
#[kani::stub(std::process::exit, stubs::exit)]
fn c02_stack_off_exits() {
    crate::features::verif_h::set_stack(false);
    let mut s = any_state();
    let instr: u16 = kani::any();
    kani::assume(instr >> 12 == 0xD);
    unsafe {
        stubs::EXPECT_EXIT = Some(1);
    }
    s.stack(instr);
    // exit(1) ends the path; reaching this point means an instruction was executed
    assert!(false, "opcode 0xD executed although the stack extension is off");
}
// reachability twin of the above: the exit stub really is reached with code 1
#[kani::proof]
#[kani::unwind(9)]
#[kani::stub(std::process::exit, stubs::exit_cover_1)]
fn c02_stack_off_exit_reached() {
    crate::features::verif_h::set_stack(false);
    let mut s = any_state();
    let instr: u16 = kani::any();
    kani::assume(instr >> 12 == 0xD);
    s.stack(instr);
}

// ----------------------------------------------------------------- C02 H-dispatch
// execute() through the real OP_TABLE: for every non-trap, non-RTI, non-0xD word the effect equals the
// reference step (ties the table order to the opcode nibble).  Opcode 0xD/0xF/0x8 are cut by assumption:
// their handlers are decided directly (c02_stack_*, c03_trap_*), the table slot is checked by
// c02_dispatch_slots below.
fn cut_trap(_s: &mut RunState, _instr: u16) {
    kani::assume(false);
}
fn cut_stack(_s: &mut RunState, _instr: u16) {
    kani::assume(false);
}
#[kani::proof]
#[kani::unwind(9)]
#[kani::stub(RunState::trap, cut_trap)]
#[kani::stub(RunState::stack, cut_stack)]
fn c02_dispatch_effect() {
    let mut s = any_state();
    let instr: u16 = kani::any();
    let op = instr >> 12;
    kani::assume(op != 0x8 && op != 0xD && op != 0xF);
    let probe: u16 = kani::any();
    let pre = snap(&s);
    let pre_probe = s.mem[probe as usize];
    let e = step(&pre, instr, true, |a| s.mem[a as usize]).unwrap();
    s.execute(instr);
    assert_effect(&s, &e, probe, pre_probe);
    kani::cover!(op == 0xB && e.write.is_some());
    kani::cover!(op == 0x0 && s.pc != pre.pc);
}

/// The table slots 0xD and 0xF lead to the stack-extension and trap handlers (handlers replaced by tag recorders).
static mut DISPATCH_TAG: u8 = 0;
static mut DISPATCH_INSTR: u16 = 0;
fn tag_trap(_s: &mut RunState, instr: u16) {
    unsafe {
        DISPATCH_TAG = 0xF;
        DISPATCH_INSTR = instr;
    }
}
fn tag_stack(_s: &mut RunState, instr: u16) {
    unsafe {
        DISPATCH_TAG = 0xD;
        DISPATCH_INSTR = instr;
    }
}
#[kani::proof]
#[kani::unwind(9)]
#[kani::stub(RunState::trap, tag_trap)]
#[kani::stub(RunState::stack, tag_stack)]
fn c02_dispatch_slots() {
    let mut s = any_state();
    let instr: u16 = kani::any();
    let op = (instr >> 12) as u8;
    kani::assume(op == 0xD || op == 0xF);
    let probe: u16 = kani::any();
    let pre = snap(&s);
    let pre_probe = s.mem[probe as usize];
    s.execute(instr);
    unsafe {
        assert!(DISPATCH_TAG == op && DISPATCH_INSTR == instr, "opcode 0xD / 0xF not dispatched to the stack / trap handler with the word itself");
    }
    assert_unchanged(&s, &pre, probe, pre_probe);
    kani::cover!(op == 0xD);
    kani::cover!(op == 0xF);
}

// ----------------------------------------------------------------- C03 H-loop
static mut LOOP_PRE_PC: u16 = 0;
static mut LOOP_EXECUTED: bool = false;

/// stands in for RunState::execute inside run(): checks what the loop hands over, then ends the path.
fn execute_probe(s: &mut RunState, instr: u16) {
    let pre_pc = unsafe { LOOP_PRE_PC };
    assert!(pre_pc != HALT_ADDRESS, "fetched an instruction although PC is 0xFFFF");
    assert!(pre_pc >= s.orig && pre_pc < USER_MEMORY_END, "fetched an instruction outside [origin, 0xFE00)");
    assert!(instr == s.mem[pre_pc as usize], "executed word is not mem[PC]");
    assert!(s.pc == pre_pc.wrapping_add(1), "PC not incremented before execute");
    kani::cover!(true, "an in-bounds instruction is fetched and handed to execute");
    kani::assume(false);
}

/// no debugger is attached in the C03 loop harnesses; cutting next_action keeps the debugger's code
/// (thread-local symbol table, terminal I/O: kani-compiler ICE) out of the reachable set
fn next_action_absent(_d: &mut Debugger, _s: &mut RunState) -> Action {
    assert!(false, "debugger consulted although none is attached");
    Action::Proceed
}

/// one arbitrary iteration of run() without a debugger, PC inside user space or 0xFFFF: no exit allowed
#[kani::proof]
#[kani::unwind(3)]
#[kani::stub(crate::debugger::Debugger::next_action, next_action_absent)]
#[kani::stub(RunState::execute, execute_probe)]
#[kani::stub(std::process::exit, crate::verif_h::exits::never)]
fn c03_loop_inbounds_or_halt() {
    let s = any_state();
    kani::assume(s.pc == HALT_ADDRESS || (s.pc >= s.orig && s.pc < USER_MEMORY_END));
    let probe: u16 = kani::any();
    let pre = snap(&s);
    let pre_probe = s.mem[probe as usize];
    unsafe {
        LOOP_PRE_PC = s.pc;
    }
    let mut env = env_with(s, None);
    env.run();
    // only reachable when nothing was fetched: must be the 0xFFFF stop, machine untouched
    assert!(pre.pc == HALT_ADDRESS, "run() returned although PC is inside user space");
    assert_unchanged(&env.state, &pre, probe, pre_probe);
    kani::cover!(true, "normal stop at PC = 0xFFFF");
    core::mem::forget(env);
}

/// one arbitrary iteration with PC outside [origin, 0xFE00) and != 0xFFFF: exit(0xEE), nothing fetched
#[kani::proof]
#[kani::unwind(3)]
#[kani::stub(crate::debugger::Debugger::next_action, next_action_absent)]
#[kani::stub(RunState::execute, execute_probe)]
#[kani::stub(std::process::exit, crate::verif_h::exits::expect_ee)]
fn c03_loop_out_of_bounds() {
    let s = any_state();
    kani::assume(s.pc != HALT_ADDRESS && (s.pc < s.orig || s.pc >= USER_MEMORY_END));
    unsafe {
        LOOP_PRE_PC = s.pc;
    }
    let mut env = env_with(s, None);
    env.run();
    assert!(false, "run() went on although PC left user space");
}

// ----------------------------------------------------------------- C03 H-load
/// reject side: empty image, or image + implicit HALT not fitting below 0x10000 => exit(0xEE)
/// (symbolic first word; lengths 0..=4 words incl. the origin word)
macro_rules! load_reject {
    ($name:ident, $n:expr) => {
        #[kani::proof]
        #[kani::unwind(6)]
        #[kani::stub(std::process::exit, crate::verif_h::exits::expect_ee)]
        fn $name() {
            let raw: [u16; $n] = kani::any();
            let too_long = $n > 0 && (raw[0] as u32) + ($n as u32) > 0x10000;
            kani::assume($n == 0 || too_long);
            let _ = RunEnvironment::from_raw(&raw[..]);
            assert!(false, "loader accepted an image it cannot hold");
        }
    };
}
load_reject!(c03_load_reject_0, 0);
load_reject!(c03_load_reject_2, 2);
load_reject!(c03_load_reject_3, 3);

/// accept side at a concrete origin: words at origin, HALT after them, PC = origin, R0-6 = 0, R7 = 0xFDFF, CC none,
/// every other cell 0 (symbolic probe)
macro_rules! load_place {
    ($name:ident, $orig:expr, $n:expr) => {
        #[kani::proof]
        #[kani::unwind(8)]
        #[kani::stub(std::process::exit, crate::verif_h::exits::never)]
        fn $name() {
            let mut raw: [u16; $n + 1] = kani::any();
            raw[0] = $orig;
            let env = RunEnvironment::from_raw(&raw[..]).unwrap();
            let s = &env.state;
            assert!(env.debugger.is_none());
            assert!(s.pc == $orig && s.orig == $orig, "PC/origin not the image's first word");
            assert!(s.reg[0] == 0 && s.reg[1] == 0 && s.reg[2] == 0 && s.reg[3] == 0);
            assert!(s.reg[4] == 0 && s.reg[5] == 0 && s.reg[6] == 0, "R0-R6 not zero after load");
            assert!(s.reg[7] == 0xFDFF, "R7 not 0xFDFF after load");
            assert!(s.flag as u8 == 0, "condition code set after load");
            let probe: u16 = kani::any();
            let o: u32 = $orig as u32;
            let p = probe as u32;
            let expect = if p >= o && p < o + $n {
                raw[(p - o) as usize + 1]
            } else if p == o + $n {
                0xF025
            } else {
                0
            };
            assert!(s.mem[probe as usize] == expect, "memory after load differs from the machine model");
            kani::cover!(p == o + $n);
            kani::cover!($n > 0 && p == o && expect == 0xABCD);
            core::mem::forget(env);
        }
    };
}
load_place!(c03_load_place_3000_2, 0x3000u16, 2);
load_place!(c03_load_place_4000_0, 0x4000u16, 0);
load_place!(c03_load_place_0_1, 0u16, 1);
load_place!(c03_load_place_fffe_1, 0xFFFEu16, 1);
load_place!(c03_load_place_fdff_3, 0xFDFFu16, 3);

// ----------------------------------------------------------------- support for C15: execute recorder
pub(crate) static mut EXEC_CALLS: u8 = 0;
pub(crate) static mut EXEC_INSTR: u16 = 0;
pub(crate) static mut EXEC_PC: u16 = 0;
/// stands in for RunState::execute inside eval: records the word and the PC it is executed "at"
/// what the recorded "execution" does to the machine: an arbitrary effect chosen by the harness (new PC, one
/// register write), standing for whatever the real instruction would do (C02) -- so that anything eval does to
/// the machine *after* executing (e.g. restoring the PC) is visible
pub(crate) static mut EXEC_NEW_PC: u16 = 0;
pub(crate) static mut EXEC_REG: u16 = 0;
pub(crate) static mut EXEC_REG_VAL: u16 = 0;
pub(crate) fn execute_recorder(s: &mut RunState, instr: u16) {
    unsafe {
        EXEC_CALLS += 1;
        EXEC_INSTR = instr;
        EXEC_PC = s.pc;
        s.pc = EXEC_NEW_PC;
        s.reg[(EXEC_REG % 8) as usize] = EXEC_REG_VAL;
    }
}
/// choose the arbitrary effect; returns (new_pc, reg, val)
pub(crate) fn any_exec_effect() -> (u16, u16, u16) {
    let e: (u16, u16, u16) = (kani::any(), kani::any::<u16>() % 8, kani::any());
    unsafe {
        EXEC_NEW_PC = e.0;
        EXEC_REG = e.1;
        EXEC_REG_VAL = e.2;
    }
    e
}
pub(crate) fn exec_calls() -> u8 {
    unsafe { EXEC_CALLS }
}
pub(crate) fn exec_instr() -> u16 {
    unsafe { EXEC_INSTR }
}
pub(crate) fn exec_pc() -> u16 {
    unsafe { EXEC_PC }
}

// ----------------------------------------------------------------- C02/C03 H-trap
static mut INPUT: [u32; 2] = [0; 2];
static mut INPUT_LEN: usize = 0;
static mut INPUT_POS: usize = 0;
/// stands in for runtime::read_char: next element of the input queue (an ASCII character or U+FFFD, which is
/// what the real function returns for any byte), `exit(1)` at end of input.  The byte -> char mapping inside
/// the real read_char (terminal / stdin, FFI) is outside the claim.
fn read_char_queue() -> char {
    unsafe {
        if INPUT_POS >= INPUT_LEN {
            std::process::exit(1);
        }
        let c = INPUT[INPUT_POS];
        INPUT_POS += 1;
        char::from_u32(c).unwrap()
    }
}
fn any_input(n: usize) -> [u32; 2] {
    let q: [u32; 2] = kani::any();
    kani::assume(q[0] < 0x80 || q[0] == 0xFFFD);
    kani::assume(q[1] < 0x80 || q[1] == 0xFFFD);
    unsafe {
        INPUT = q;
        INPUT_LEN = n;
        INPUT_POS = 0;
    }
    q
}
fn input_consumed() -> usize {
    unsafe { INPUT_POS }
}

macro_rules! trap_attrs {
    ($(#[$m:meta])* fn $name:ident() $body:block) => {
        #[kani::proof]
        #[kani::unwind(10)]
        #[kani::stub(alloc::fmt::format, stubs::fmt_format)]
        #[kani::stub(crate::runtime::read_char, read_char_queue)]
        #[kani::stub(crate::output::Output::print_fmt, crate::output::verif_h::print_fmt_capture)]
        $(#[$m])*
        fn $name() $body
    };
}
use crate::verif_h::capture;

// One harness per trap vector: the vector is a constant of the harness (bits 11:8 of the word stay symbolic),
// so symbolic execution follows one arm of trap()'s match instead of all of them (all arms: >20 min, measured).
fn getc_in_out_body(which: u8) {
    let mut s = any_state();
    let q = any_input(2);
    let vect: u16 = match which { 0 => 0x20, 1 => 0x21, _ => 0x23 };
    // the instruction word is a constant of the harness (a symbolic word, even one with a constant low byte, makes
    // every arm of trap()'s match feasible for the symbolic executor: >25 min)
    let instr = 0xF000 | vect;
    let probe: u16 = kani::any();
    let pre = snap(&s);
    let pre_probe = s.mem[probe as usize];
    s.trap(instr);
    let mut e = Effect { r: pre.r, pc: pre.pc, cc: pre.cc, write: None };
    match which {
        0 => {
            e.r[0] = q[0] as u16;
            assert!(input_consumed() == 1 && capture::len() == 0, "GETC must take exactly one input character and print nothing");
        }
        1 => {
            assert!(input_consumed() == 0 && capture::len() == 1 && capture::at(0) == (pre.r[0] % 256) as u32, "OUT must print R0[7:0] as one character");
        }
        _ => {
            e.r[0] = q[0] as u16;
            assert!(input_consumed() == 1 && capture::len() == 1 && capture::at(0) == q[0], "IN must take one character and echo it");
        }
    }
    assert_effect(&s, &e, probe, pre_probe);
    kani::cover!(q[0] == 0xFFFD || which == 1);
    kani::cover!(pre.r[0] == 0x1FF);
}
trap_attrs! {
#[kani::stub(std::process::exit, crate::verif_h::exits::never)]
fn c03_trap_getc() { getc_in_out_body(0); }}
trap_attrs! {
#[kani::stub(std::process::exit, crate::verif_h::exits::never)]
fn c03_trap_out() { getc_in_out_body(1); }}
trap_attrs! {
#[kani::stub(std::process::exit, crate::verif_h::exits::never)]
fn c03_trap_in() { getc_in_out_body(2); }}

/// GETC / IN at end of input: exit(1), nothing else
trap_attrs! {
#[kani::stub(std::process::exit, crate::verif_h::exits::expect_1)]
fn c03_trap_getc_eof() {
    let mut s = any_state();
    let _ = any_input(0);
    s.trap(0xF020);
    assert!(false, "GETC went on after end of input");
}}
trap_attrs! {
#[kani::stub(std::process::exit, crate::verif_h::exits::expect_1)]
fn c03_trap_in_eof() {
    let mut s = any_state();
    let _ = any_input(0);
    s.trap(0xF023);
    assert!(false, "IN went on after end of input");
}}

trap_attrs! {
#[kani::stub(std::process::exit, crate::verif_h::exits::never)]
fn c03_trap_halt() {
    let mut s = any_state();
    let probe: u16 = kani::any();
    let pre = snap(&s);
    let pre_probe = s.mem[probe as usize];
    s.trap(0xF025);
    let mut e = Effect { r: pre.r, pc: pre.pc, cc: pre.cc, write: None };
    e.pc = 0xFFFF;
    assert_effect(&s, &e, probe, pre_probe);
    assert!(capture::len() == 0, "HALT wrote to the program's output channel through Output::Normal");
    kani::cover!(pre.pc == 0x3001);
}}

trap_attrs! {
#[kani::stub(std::process::exit, crate::verif_h::exits::never)]
fn c03_trap_putn() {
    let mut s = any_state();
    let probe: u16 = kani::any();
    let pre = snap(&s);
    let pre_probe = s.mem[probe as usize];
    s.trap(0xF026);
    // PUTN: R0 as a signed decimal, no padding
    let v = pre.r[0];
    let neg = v >= 0x8000;
    let mag: u32 = if neg { 65536 - v as u32 } else { v as u32 };
    let digits: usize = if mag >= 10000 { 5 } else if mag >= 1000 { 4 } else if mag >= 100 { 3 } else if mag >= 10 { 2 } else { 1 };
    let total = digits + if neg { 1 } else { 0 };
    assert!(capture::len() == total, "PUTN printed the wrong number of characters");
    if neg {
        assert!(capture::at(0) == '-' as u32);
    }
    assert!(capture::at(total - 1) == '0' as u32 + mag % 10, "PUTN last digit wrong");
    let first = if neg { 1 } else { 0 };
    let lead = match digits { 5 => mag / 10000, 4 => mag / 1000, 3 => mag / 100, 2 => mag / 10, _ => mag };
    assert!(capture::at(first) == '0' as u32 + lead, "PUTN leading digit wrong");
    assert_unchanged(&s, &pre, probe, pre_probe);
    kani::cover!(pre.r[0] == 0x8000);
    kani::cover!(pre.r[0] == 7);
}}

/// PUTS / PUTSP: characters up to the first zero (word resp. byte), string of at most 3 words that does not
/// run through 0xFFFF (stated bound)
trap_attrs! {
#[kani::stub(std::process::exit, crate::verif_h::exits::never)]
fn c03_trap_puts() {
    let mut s = any_state();
    let a = s.reg[0];
    kani::assume(a <= 0xFFF0);
    let w0 = s.mem[a as usize];
    let w1 = s.mem[a as usize + 1];
    let w2 = s.mem[a as usize + 2];
    kani::assume(w0 % 256 == 0 || w1 % 256 == 0 || w2 % 256 == 0);
    let probe: u16 = kani::any();
    let pre = snap(&s);
    let pre_probe = s.mem[probe as usize];
    s.trap(0xF022);
    let n = if w0 % 256 == 0 { 0 } else if w1 % 256 == 0 { 1 } else { 2 };
    assert!(capture::len() == n, "PUTS printed past / stopped before the terminating zero");
    if n >= 1 { assert!(capture::at(0) == (w0 % 256) as u32); }
    if n >= 2 { assert!(capture::at(1) == (w1 % 256) as u32); }
    assert_unchanged(&s, &pre, probe, pre_probe);
    kani::cover!(n == 2 && w0 >= 0x100);
    kani::cover!(n == 0);
}}

trap_attrs! {
#[kani::stub(std::process::exit, crate::verif_h::exits::never)]
fn c03_trap_putsp() {
    let mut s = any_state();
    let a = s.reg[0];
    kani::assume(a <= 0xFFF0);
    let w0 = s.mem[a as usize];
    let w1 = s.mem[a as usize + 1];
    // bytes in printing order: high byte first, as implemented and documented in the trap's code; the string ends at the first zero byte
    let b = [w0 / 256, w0 % 256, w1 / 256, w1 % 256];
    kani::assume(b[0] == 0 || b[1] == 0 || b[2] == 0 || b[3] == 0);
    let probe: u16 = kani::any();
    let pre = snap(&s);
    let pre_probe = s.mem[probe as usize];
    s.trap(0xF024);
    let n = if b[0] == 0 { 0 } else if b[1] == 0 { 1 } else if b[2] == 0 { 2 } else { 3 };
    assert!(capture::len() == n, "PUTSP printed past / stopped before the terminating zero byte");
    if n >= 1 { assert!(capture::at(0) == b[0] as u32); }
    if n >= 2 { assert!(capture::at(1) == b[1] as u32); }
    if n >= 3 { assert!(capture::at(2) == b[2] as u32); }
    assert_unchanged(&s, &pre, probe, pre_probe);
    kani::cover!(n == 3);
}}

/// unknown trap vectors: exit(0xEE) with nothing executed.  The vector is symbolic here by necessity, so every arm
/// of trap() is feasible for the symbolic executor: printing and input are cut (reaching them is a violation).
fn no_print(_this: &crate::output::Output, _args: core::fmt::Arguments) {
    assert!(false, "unknown trap vector printed something");
    kani::assume(false);
}
fn no_print_registers(_this: &crate::output::Output, _s: &RunState) {
    assert!(false, "unknown trap vector printed the registers");
    kani::assume(false);
}
fn no_input() -> char {
    assert!(false, "unknown trap vector consumed input");
    kani::assume(false);
    ' '
}
#[kani::proof]
#[kani::unwind(10)]
#[kani::stub(alloc::fmt::format, stubs::fmt_format)]
#[kani::stub(crate::runtime::read_char, no_input)]
#[kani::stub(crate::output::Output::print_fmt, no_print)]
#[kani::stub(crate::output::Output::print_registers, no_print_registers)]
#[kani::stub(std::process::exit, crate::verif_h::exits::expect_ee)]
fn c02_trap_unknown_vector() {
    let mut s = any_state();
    let instr: u16 = kani::any();
    kani::assume(instr >> 12 == 0xF);
    let v = instr % 256;
    kani::assume(v < 0x20 || v > 0x27);
    s.trap(instr);
    assert!(false, "unknown trap vector executed instead of stopping the machine");
}

/// REG: prints, changes nothing
#[kani::proof]
#[kani::unwind(10)]
#[kani::stub(alloc::fmt::format, stubs::fmt_format)]
#[kani::stub(crate::runtime::read_char, read_char_queue)]
#[kani::stub(std::process::exit, crate::verif_h::exits::never)]
#[kani::stub(crate::output::Output::print_fmt, crate::output::verif_h::print_fmt_count)]
fn c03_trap_reg() {
    let mut s = any_state();
    crate::output::verif_h::set_minimal_any();
    let probe: u16 = kani::any();
    let pre = snap(&s);
    let pre_probe = s.mem[probe as usize];
    s.trap(0xF027);
    assert_unchanged(&s, &pre, probe, pre_probe);
    assert!(capture::len() > 0, "REG printed nothing");
    kani::cover!(true);
}

// ----------------------------------------------------------------- C09 L-sched / C16: the run loop WITH a debugger attached
// One arbitrary iteration of the real run() with a debugger attached.  Debugger::next_action is replaced by its
// *contract* (decided by debugger::verif_h::c10_running_* / c10_cmd_*): it returns Proceed only when PC is in
// user space and mem[PC] is not HALT, StopDebugger or ExitProgram otherwise, and never touches the machine.
// RunState::execute is the probe of the C03 loop harnesses.  Asserted: after Proceed the loop executes exactly
// mem[PC] (it does not come back to the debugger without executing: no spinning); after ExitProgram it returns
// with the machine untouched; after StopDebugger the plain loop takes over from the untouched machine.
static mut NA_CALLS: u8 = 0;
static mut NA_ANSWER: u8 = 0;
fn next_action_contract(_d: &mut Debugger, s: &mut RunState) -> Action {
    unsafe {
        NA_CALLS += 1;
        assert!(NA_CALLS == 1, "the run loop came back to the debugger without executing an instruction or detaching it");
        match NA_ANSWER {
            0 => {
                // contract of next_action: Proceed only from an executable PC
                kani::assume(s.pc >= s.orig && s.pc < USER_MEMORY_END);
                let w = s.mem[s.pc as usize];
                kani::assume(!(w >> 12 == 0xF && w & 0xFF == 0x25));
                Action::Proceed
            }
            1 => Action::StopDebugger,
            _ => Action::ExitProgram,
        }
    }
}

fn drop_debugger_leak(d: &mut Option<Debugger>) {
    // `self.debugger = None` drops the debugger (file handles, buffers): not the subject; leak it instead
    let old = d.take();
    core::mem::forget(old);
}

macro_rules! run_with_debugger {
    ($name:ident, $answer:expr, $exit:path) => {
        #[kani::proof]
        #[kani::unwind(3)]
        #[kani::stub(alloc::fmt::format, stubs::fmt_format)]
        #[kani::stub(crate::symbol::with_symbol_table, stubs::with_symbol_table)]
        #[kani::stub(crate::output::Output::print_fmt, crate::output::verif_h::print_fmt_count)]
        #[kani::stub(crate::debugger::Debugger::next_action, next_action_contract)]
        #[kani::stub(RunState::execute, execute_probe)]
        #[kani::stub(std::process::exit, $exit)]
        fn $name() {
            let mut s = any_state();
            let d = crate::debugger::verif_h::any_debugger(&mut s, crate::debugger::verif_h::St::Cont);
            let probe: u16 = kani::any();
            let pre = snap(&s);
            let pre_probe = s.mem[probe as usize];
            unsafe {
                NA_ANSWER = $answer;
                NA_CALLS = 0;
                LOOP_PRE_PC = s.pc;
            }
            let mut env = env_with(s, Some(d));
            env.run();
            // run() returned: either `exit` (ExitProgram) or detached + normal stop at 0xFFFF
            assert_unchanged(&env.state, &pre, probe, pre_probe);
            if $answer == 0 {
                assert!(false, "run() returned after Proceed without executing the next instruction");
            }
            if $answer == 1 {
                assert!(pre.pc == HALT_ADDRESS, "detached run loop stopped although PC is in user space");
            }
            kani::cover!(true, "run() returned");
            core::mem::forget(env);
        }
    };
}
run_with_debugger!(c16_run_loop_proceed_executes, 0, crate::verif_h::exits::never);
run_with_debugger!(c09_run_loop_exit_program, 2, crate::verif_h::exits::never);

// ----------------------------------------------------------------- negative control (thorough tier)
/// LDR against a deliberately wrong oracle (address + 1): must come back FAILED, otherwise the op harnesses
/// could not fail (guards against a vacuous harness / an oracle that follows the implementation)
#[kani::proof]
#[kani::unwind(9)]
fn c02_control_wrong_oracle_ldr() {
    let mut s = any_state();
    let instr: u16 = kani::any();
    kani::assume(instr >> 12 == 0x6);
    let probe: u16 = kani::any();
    let pre = snap(&s);
    let pre_probe = s.mem[probe as usize];
    let wrong = instr ^ 1; // offset6 off by one
    let e = step(&pre, wrong, true, |a| s.mem[a as usize]).unwrap();
    s.ldr(instr);
    assert_effect(&s, &e, probe, pre_probe);
}
