//! cfg(kani) child of src/debugger/command/parse/integer.rs: C14 H-int.
#![allow(dead_code, unused_imports)]
use super::*;
use crate::verif_h::cmdspec::{self, IntR};

pub(crate) fn value_of(i: &Integer) -> i32 {
    i.value
}

/// an ASCII string of symbolic length <= N with symbolic bytes, on the stack
macro_rules! ascii_str {
    ($buf:ident, $n:ident, $s:ident, $cap:expr) => {
        let $buf: [u8; $cap] = kani::any();
        let $n: usize = kani::any();
        kani::assume($n <= $cap);
        let mut k = 0;
        while k < $cap {
            kani::assume($buf[k] < 0x80 && $buf[k] != b';' && $buf[k] != b'\n');
            k += 1;
        }
        let $s: &str = unsafe { core::str::from_utf8_unchecked(&$buf[..$n]) };
    };
}
pub(crate) use ascii_str;

fn compare(got: Result<Option<Integer>, error::Value>, want: IntR) {
    match want {
        IntR::NotInt => assert!(matches!(got, Ok(None)), "token that is not an integer was not reported as such"),
        IntR::Bad => assert!(got.is_err(), "malformed integer accepted (or taken for a non-integer)"),
        IntR::Val(v) => assert!(matches!(got, Ok(Some(ref i)) if i.value as i64 == v), "integer parsed to another value or rejected"),
    }
}

/// every ASCII string of <= 4 bytes through the real parser vs the reference recogniser (both sign modes)
#[kani::proof]
#[kani::unwind(6)]
fn c14_int_len4() {
    ascii_str!(buf, n, s, 4);
    let require_sign: bool = kani::any();
    let got = if require_sign { Integer::try_parse_signed(s) } else { Integer::try_parse(s) };
    let want = cmdspec::int(&buf[..n], require_sign);
    compare(got, want);
    kani::cover!(matches!(want, IntR::Val(v) if v < 0) && n == 4);
    kani::cover!(matches!(want, IntR::NotInt) && n == 3);
    kani::cover!(matches!(want, IntR::Bad) && n == 2);
}

/// conversions: as_u16 / as_i16 / as_u16_cast for every i32
#[kani::proof]
fn c14_int_conversions() {
    let v: i32 = kani::any();
    let i = Integer { value: v };
    let u = i.as_u16();
    assert!(matches!(u, Ok(x) if x as i32 == v) == (v >= 0 && v <= 0xFFFF) && (u.is_ok() == (v >= 0 && v <= 0xFFFF)));
    let s = i.as_i16();
    assert!(s.is_ok() == (v >= -32768 && v <= 32767) && (s.is_err() || matches!(s, Ok(x) if x as i32 == v)));
    let c = i.as_u16_cast();
    let ok = v >= -32768 && v <= 0xFFFF;
    assert!(c.is_ok() == ok, "as_u16_cast accepts a value outside [-32768, 65535] or refuses one inside");
    if ok {
        assert!(matches!(c, Ok(x) if x == (v & 0xFFFF) as u16), "negative value not converted by two's complement");
    }
    kani::cover!(v == -1);
    kani::cover!(v == 65536);
}

/// digit accumulation at the i32 boundary: '#' followed by exactly 10 symbolic decimal digits
/// (the shortest decimal spellings that exceed i32): never panics, value or "too large"
#[kani::proof]
#[kani::unwind(13)]
fn c14_int_decimal_10_digits() {
    let mut buf = [b'#'; 11];
    let mut k = 1;
    let mut v: i64 = 0;
    while k < 11 {
        let d: u8 = kani::any();
        kani::assume(d < 10);
        buf[k] = b'0' + d;
        v = v * 10 + d as i64;
        k += 1;
    }
    let s: &str = unsafe { core::str::from_utf8_unchecked(&buf[..]) };
    let got = Integer::try_parse(s);
    if v <= i32::MAX as i64 {
        assert!(matches!(got, Ok(Some(ref i)) if i.value as i64 == v));
    } else {
        assert!(got.is_err(), "integer beyond i32 accepted");
    }
    kani::cover!(v == 2147483648);
    kani::cover!(v == 2147483647);
}

/// same boundary in hex: 'x' + 8 symbolic hex digits
#[kani::proof]
#[kani::unwind(11)]
fn c14_int_hex_8_digits() {
    let mut buf = [b'x'; 9];
    let mut k = 1;
    let mut v: i64 = 0;
    while k < 9 {
        let d: u8 = kani::any();
        kani::assume(d < 16);
        buf[k] = if d < 10 { b'0' + d } else { b'a' + (d - 10) };
        v = v * 16 + d as i64;
        k += 1;
    }
    let s: &str = unsafe { core::str::from_utf8_unchecked(&buf[..]) };
    let got = Integer::try_parse(s);
    if v <= i32::MAX as i64 {
        assert!(matches!(got, Ok(Some(ref i)) if i.value as i64 == v));
    } else {
        assert!(got.is_err(), "integer beyond i32 accepted");
    }
    kani::cover!(v == 0x80000000);
}
