//! cfg(kani) child of src/symbol.rs: symbolic values of the small enums; C04/C19 symbol-table harnesses.
#![allow(dead_code, unused_imports)]
use super::*;
use crate::verif_h::stubs;

pub(crate) fn any_register() -> Register {
    match kani::any::<u8>() % 8 {
        0 => Register::R0,
        1 => Register::R1,
        2 => Register::R2,
        3 => Register::R3,
        4 => Register::R4,
        5 => Register::R5,
        6 => Register::R6,
        _ => Register::R7,
    }
}

pub(crate) fn any_flag() -> Flag {
    match kani::any::<u8>() % 7 {
        0 => Flag::N,
        1 => Flag::Z,
        2 => Flag::P,
        3 => Flag::Nz,
        4 => Flag::Zp,
        5 => Flag::Np,
        _ => Flag::Nzp,
    }
}

/// reference nzp bits of a flag, written as a sum
pub(crate) fn spec_flag_bits(f: Flag) -> u16 {
    let (n, z, p) = match f {
        Flag::N => (1, 0, 0),
        Flag::Z => (0, 1, 0),
        Flag::P => (0, 0, 1),
        Flag::Nz => (1, 1, 0),
        Flag::Zp => (0, 1, 1),
        Flag::Np => (1, 0, 1),
        Flag::Nzp => (1, 1, 1),
    };
    n * 4 + z * 2 + p
}

pub(crate) fn any_instr_kind() -> InstrKind {
    match kani::any::<u8>() % 20 {
        0 => InstrKind::Add,
        1 => InstrKind::And,
        2 => InstrKind::Br(any_flag()),
        3 => InstrKind::Jmp,
        4 => InstrKind::Jsr,
        5 => InstrKind::Jsrr,
        6 => InstrKind::Ld,
        7 => InstrKind::Ldi,
        8 => InstrKind::Ldr,
        9 => InstrKind::Lea,
        10 => InstrKind::Not,
        11 => InstrKind::Ret,
        12 => InstrKind::Rti,
        13 => InstrKind::St,
        14 => InstrKind::Sti,
        15 => InstrKind::Str,
        16 => InstrKind::Pop,
        17 => InstrKind::Push,
        18 => InstrKind::Call,
        _ => InstrKind::Rets,
    }
}

pub(crate) fn any_trap_kind() -> TrapKind {
    match kani::any::<u8>() % 9 {
        0 => TrapKind::Generic,
        1 => TrapKind::Halt,
        2 => TrapKind::Putsp,
        3 => TrapKind::In,
        4 => TrapKind::Puts,
        5 => TrapKind::Out,
        6 => TrapKind::Getc,
        7 => TrapKind::Putn,
        _ => TrapKind::Reg,
    }
}

pub(crate) fn any_dir_kind() -> DirKind {
    match kani::any::<u8>() % 6 {
        0 => DirKind::Orig,
        1 => DirKind::End,
        2 => DirKind::Stringz,
        3 => DirKind::Blkw,
        4 => DirKind::Fill,
        _ => DirKind::Break,
    }
}

pub(crate) fn span_of(offs: usize, len: usize) -> Span {
    Span::new(SrcOffset(offs), len)
}

/// put one entry into the (stubbed) symbol table
pub(crate) fn table_put(name: &str, line: u16) {
    stubs::with_symbol_table(|t| {
        t.insert(name.to_string(), line);
    });
}
pub(crate) fn table_len() -> usize {
    stubs::with_symbol_table(|t| t.len())
}

// ------------------------------------------------------------- C04 H-dup / H-undef, C19 H-reset-empties
/// Label::insert twice => second is Err and the first line is what lookups... (value is overwritten: not judged);
/// filled() on a missing name => Err; on a present name => Ref(line)
#[kani::proof]
#[kani::unwind(6)]
#[kani::stub(crate::symbol::with_symbol_table, stubs::with_symbol_table)]
#[kani::stub(alloc::fmt::format, stubs::fmt_format)]
fn c04_label_dup_undef() {
    let l1: u16 = kani::any();
    let l2: u16 = kani::any();
    assert!(Label::insert("a", l1).is_ok(), "first definition of a label rejected");
    assert!(Label::insert("a", l2).is_err(), "duplicate label accepted");
    assert!(Label::insert("A", l2).is_ok(), "labels differing in case are distinct (as implemented)");
    let m = Label::Unfilled("b".to_string()).filled();
    assert!(m.is_err(), "undefined label resolved");
    match Label::try_fill("b") {
        Label::Unfilled(_) => (),
        Label::Ref(_) => assert!(false, "undefined label filled"),
    }
    match Label::Unfilled("A".to_string()).filled() {
        Ok(Label::Ref(v)) => assert!(v == l2, "label resolved to another statement"),
        _ => assert!(false, "defined label not resolved"),
    }
    match Label::Ref(l1).filled() {
        Ok(Label::Ref(v)) => assert!(v == l1),
        _ => assert!(false),
    }
    kani::cover!(l1 == 0xFFFF && l2 == 1);
}

/// C19: after reset_state() every lookup misses, whatever was recorded (N entries, N concrete per harness, symbolic lines)
macro_rules! reset_empties {
    ($name:ident, $n:expr) => {
        #[kani::proof]
        #[kani::unwind(6)]
        #[kani::stub(crate::symbol::with_symbol_table, stubs::with_symbol_table)]
        #[kani::stub(alloc::fmt::format, stubs::fmt_format)]
        fn $name() {
            if $n >= 1 {
                let _ = Label::insert("a", kani::any());
            }
            if $n >= 2 {
                let _ = Label::insert("b", kani::any());
            }
            if $n >= 3 {
                let _ = Label::insert("ab", kani::any());
            }
            assert!(table_len() == $n);
            reset_state();
            assert!(table_len() == 0, "reset_state left entries behind");
            let a = Label::try_fill("a");
            assert!(matches!(a, Label::Unfilled(_)), "label of the previous source still resolves after reset");
            core::mem::forget(a);
            let ab = Label::try_fill("ab");
            assert!(matches!(ab, Label::Unfilled(_)));
            core::mem::forget(ab);
            let l: u16 = kani::any();
            assert!(Label::insert("a", l).is_ok(), "stale entry trips duplicate detection after reset");
            let a2 = Label::try_fill("a");
            assert!(matches!(a2, Label::Ref(v) if v == l));
            kani::cover!(l == 7);
        }
    };
}
reset_empties!(c19_reset_empties_1, 1);
reset_empties!(c19_reset_empties_3, 3);

/// C19 H-static: StaticSource::new -> src -> reclaim, memory safety under Kani's pointer checks
#[kani::proof]
#[kani::unwind(6)]
fn c19_static_source() {
    let mut s = StaticSource::new(String::from("add"));
    let t = s.src();
    assert!(t.len() == 3 && t.as_bytes()[0] == b'a');
    s.reclaim();
    kani::cover!(true);
}

/// Span::join covers both spans (C17 directive spans)
#[kani::proof]
fn c17_span_join() {
    let a: usize = kani::any();
    let la: usize = kani::any();
    let b: usize = kani::any();
    let lb: usize = kani::any();
    kani::assume(a < 1000 && la < 1000 && b < 1000 && lb < 1000);
    let j = span_of(a, la).join(span_of(b, lb));
    assert!(j.offs() <= a && j.offs() <= b && j.end() >= a + la && j.end() >= b + lb);
    assert!(j.offs() == a || j.offs() == b);
    assert!(j.end() == a + la || j.end() == b + lb);
    kani::cover!(a > b && a + la < b + lb);
}

/// C19 H-seq at the symbol level: (define ab = l1; resolve) ; reset ; (define ab = l2; resolve) gives l2, and
/// after a reset with no definition the reference is undefined -- whatever the first assembly did, including
/// failing half-way (the reference resolved or not before the reset)
#[kani::proof]
#[kani::unwind(6)]
#[kani::stub(crate::symbol::with_symbol_table, stubs::with_symbol_table)]
#[kani::stub(alloc::fmt::format, stubs::fmt_format)]
fn c19_sequence_after_reset() {
    let l1: u16 = kani::any();
    let l2: u16 = kani::any();
    let first_resolved: bool = kani::any();
    let redefine: bool = kani::any();
    assert!(Label::insert("ab", l1).is_ok());
    if first_resolved {
        let r = Label::Unfilled("ab".to_string()).filled();
        assert!(matches!(r, Ok(Label::Ref(v)) if v == l1));
        core::mem::forget(r);
    }
    reset_state();
    if redefine {
        assert!(Label::insert("ab", l2).is_ok(), "label of the previous source still recorded after reset");
        let r = Label::Unfilled("ab".to_string()).filled();
        assert!(matches!(r, Ok(Label::Ref(v)) if v == l2), "reference resolved to the previous source's label");
        core::mem::forget(r);
        assert!(matches!(Label::try_fill("ab"), Label::Ref(v) if v == l2));
    } else {
        let r = Label::Unfilled("ab".to_string()).filled();
        assert!(r.is_err(), "reference to a label only the previous source defined is accepted after reset");
        core::mem::forget(r);
    }
    kani::cover!(first_resolved && redefine && l1 != l2);
    kani::cover!(!redefine);
}
