//! cfg(kani) child of src/debugger/command/reader/terminal.rs: C20 (line editor).
//!
//! Strings are *enumerated concretely inside the harness* (every string of <= N characters over the alphabet
//! {a, space, +, e-acute (2 bytes), grinning face (4 bytes)}), so UTF-8 decoding constant-folds; cursor
//! positions, flags and keys are symbolic and decided by the solver.
#![allow(dead_code, unused_imports)]
use super::*;

const ALPHABET: [char; 5] = ['a', ' ', '+', '\u{e9}', '\u{1F600}'];

fn is_ws(c: char) -> bool {
    c == ' '
}
fn is_alnum(c: char) -> bool {
    c == 'a' || c == '\u{e9}'
}
// exact answers of the std predicates on the alphabet (Unicode table searches are not the subject)
fn stub_is_whitespace(c: char) -> bool {
    is_ws(c)
}
fn stub_is_alphanumeric(c: char) -> bool {
    is_alnum(c)
}

/// reference word motions on a character vector (Vim `w` / `b` rules as documented on the functions)
fn spec_word_next(c: &[char], k: usize, full_word: bool) -> usize {
    let n = c.len();
    if k >= n {
        return n;
    }
    let mut j = k + 1;
    if is_ws(c[k]) {
        while j < n {
            if !is_ws(c[j]) {
                return j;
            }
            j += 1;
        }
        return n;
    }
    let alnum = is_alnum(c[k]);
    while j < n {
        if is_ws(c[j]) {
            let mut m = j + 1;
            while m < n {
                if !is_ws(c[m]) {
                    return m;
                }
                m += 1;
            }
            return n;
        }
        if !full_word && is_alnum(c[j]) != alnum {
            return j;
        }
        j += 1;
    }
    n
}
fn spec_word_back(c: &[char], k: usize, full_word: bool) -> usize {
    if k <= 1 {
        return 0;
    }
    let mut i = k - 1;
    while i > 0 && is_ws(c[i]) {
        i -= 1;
    }
    let alnum = is_alnum(c[i]);
    while i > 0 {
        i -= 1;
        if is_ws(c[i]) || (!full_word && is_alnum(c[i]) != alnum) {
            return i + 1;
        }
    }
    0
}

fn build(sel: &[usize], n: usize, s: &mut String, v: &mut [char; 3]) {
    let mut i = 0;
    while i < n {
        let ch = ALPHABET[sel[i]];
        s.push(ch);
        v[i] = ch;
        i += 1;
    }
}

/// kernels on every string of <= 2 characters over the alphabet x every cursor in [0, #chars] x both word modes:
/// the result is a *character* index in [0, #chars] and equals the reference motion; count_chars_bytes agrees
/// with the UTF-8 layout; insert/remove at a character index produce the reference string.
macro_rules! kernels_for {
    ($name:ident, $len:expr) => {
        #[kani::proof]
        #[kani::unwind(8)]
        #[kani::stub(char::is_whitespace, stub_is_whitespace)]
        #[kani::stub(char::is_alphanumeric, stub_is_alphanumeric)]
        fn $name() {
            let cursor: usize = kani::any();
            let full_word: bool = kani::any();
            let ins_sel: usize = kani::any();
            kani::assume(ins_sel < 5);
            kani::assume(cursor <= $len);
            let n: usize = $len;
            let mut sel = [0usize; 3];
            // enumerate all 5^n strings concretely
            let total: usize = if n == 0 { 1 } else if n == 1 { 5 } else if n == 2 { 25 } else { 125 };
            let mut idx = 0;
            while idx < total {
                sel[0] = idx % 5;
                sel[1] = (idx / 5) % 5;
                sel[2] = (idx / 25) % 5;
                let mut s = String::new();
                let mut v = ['\0'; 3];
                build(&sel, n, &mut s, &mut v);
                let chars = &v[..n];

                let nx = find_word_next(&s, cursor, full_word);
                assert!(nx <= n, "Ctrl+Right leaves the cursor beyond the end of the line (byte index used as character index)");
                assert!(nx == spec_word_next(chars, cursor, full_word), "Ctrl+Right does not move to the start of the next word");
                let bk = find_word_back(&s, cursor, full_word);
                assert!(bk <= n && bk == spec_word_back(chars, cursor, full_word), "Ctrl+Left does not move to the start of the previous word");

                let (bi, cc) = count_chars_bytes(&s, cursor);
                let mut want_bi = 0;
                let mut q = 0;
                while q < cursor && q < n {
                    want_bi += chars[q].len_utf8();
                    q += 1;
                }
                assert!(cc == n && bi == want_bi, "character index -> byte index conversion wrong");

                // insert at the cursor, then remove it again: text round-trips, and the inserted character sits at `cursor`
                let ch = ALPHABET[ins_sel];
                let before = s.clone();
                insert_char_index(&mut s, cursor, ch);
                assert!(s.chars().count() == n + 1 && s.chars().nth(cursor) == Some(ch), "inserted character not at the cursor");
                let removed = remove_char_index(&mut s, cursor);
                assert!(removed == ch && s == before, "remove at the cursor does not undo the insert");
                idx += 1;
            }
            kani::cover!(cursor == $len && full_word);
            kani::cover!(cursor == 0 && !full_word);
        }
    };
}
kernels_for!(c20_kernels_len0, 0usize);
kernels_for!(c20_kernels_len1, 1usize);
kernels_for!(c20_kernels_len2, 2usize);
kernels_for!(c20_kernels_len3, 3usize);

/// get_next_command: a submitted line of exactly N bytes over {a, ';', space} (N concrete per harness) is split
/// at ';' into the same pieces, in order, then the head index resets
fn split_body(n: usize) {
    let b: [u8; 3] = kani::any();
    let mut k = 0;
    while k < 3 {
        kani::assume(b[k] == b'a' || b[k] == b';' || b[k] == b' ');
        k += 1;
    }
    let mut line = String::new();
    let mut k = 0;
    while k < n {
        line.push(b[k] as char);
        k += 1;
    }
    let mut t = Terminal {
        stderr: io::stderr(),
        buffer: line,
        cursor: 0,
        visible_cursor: 0,
        history: TerminalHistory { list: Vec::new(), index: 0, file: None },
    };
    // reference: pieces between ';'
    let mut start = 0;
    let mut rounds = 0;
    loop {
        let mut end = start;
        while end < n && b[end] != b';' {
            end += 1;
        }
        let l = t.get_next_command().len();
        assert!(l == end - start, "command piece has the wrong length");
        if end == n {
            assert!(t.cursor == 0, "head index not reset after the last command of the line");
            break;
        }
        start = end + 1;
        if start == n {
            // trailing ';': the next call returns the empty rest and resets
            let l2 = t.get_next_command().len();
            assert!(l2 == 0 && t.cursor == 0);
            break;
        }
        rounds += 1;
        assert!(rounds <= 3);
    }
    kani::cover!(rounds >= 1 || n == 1, "a line with more than one command");
    core::mem::forget(t);
}
#[kani::proof]
#[kani::unwind(8)]
fn c20_next_command_split_len1() {
    split_body(1);
}
#[kani::proof]
#[kani::unwind(8)]
fn c20_next_command_split_len2() {
    split_body(2);
}
#[kani::proof]
#[kani::unwind(8)]
fn c20_next_command_split_len3() {
    split_body(3);
}
