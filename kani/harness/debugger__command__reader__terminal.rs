//! cfg(kani) child of src/debugger/command/reader/terminal.rs: C20 (line editor).
//!
//! Strings are *enumerated concretely inside the harness* (every string of <= N characters over the alphabet
//! {a, space, +, e-acute (2 bytes), grinning face (4 bytes)}), so UTF-8 decoding constant-folds; cursor
//! positions, flags and keys are symbolic and decided by the solver.
#![allow(dead_code, unused_imports)]
use super::*;

const ALPHABET: [char; 5] = ['a', ' ', '+', '\u{e9}', '\u{1F600}'];

fn is_ws(c: char) -> bool {
    c == ' '
}
fn is_alnum(c: char) -> bool {
    c == 'a' || c == '\u{e9}'
}
// exact answers of the std predicates on the alphabet (Unicode table searches are not the subject)
fn stub_is_whitespace(c: char) -> bool {
    is_ws(c)
}
fn stub_is_alphanumeric(c: char) -> bool {
    is_alnum(c)
}

/// reference word motions on a character vector (Vim `w` / `b` rules as documented on the functions)
fn spec_word_next(c: &[char], k: usize, full_word: bool) -> usize {
    let n = c.len();
    if k >= n {
        return n;
    }
    let mut j = k + 1;
    if is_ws(c[k]) {
        while j < n {
            if !is_ws(c[j]) {
                return j;
            }
            j += 1;
        }
        return n;
    }
    let alnum = is_alnum(c[k]);
    while j < n {
        if is_ws(c[j]) {
            let mut m = j + 1;
            while m < n {
                if !is_ws(c[m]) {
                    return m;
                }
                m += 1;
            }
            return n;
        }
        if !full_word && is_alnum(c[j]) != alnum {
            return j;
        }
        j += 1;
    }
    n
}
fn spec_word_back(c: &[char], k: usize, full_word: bool) -> usize {
    if k <= 1 {
        return 0;
    }
    let mut i = k - 1;
    while i > 0 && is_ws(c[i]) {
        i -= 1;
    }
    let alnum = is_alnum(c[i]);
    while i > 0 {
        i -= 1;
        if is_ws(c[i]) || (!full_word && is_alnum(c[i]) != alnum) {
            return i + 1;
        }
    }
    0
}

fn build(sel: &[usize], n: usize, s: &mut String, v: &mut [char; 3]) {
    let mut i = 0;
    while i < n {
        let ch = ALPHABET[sel[i]];
        s.push(ch);
        v[i] = ch;
        i += 1;
    }
}

/// Word motions and index conversion on every string of exactly N characters over the alphabet x every cursor in
/// [0, N] (both enumerated concretely: a symbolic cursor turns `char_indices().skip(cursor)` / `chars().nth(cursor)`
/// into intractable loops -- measured) x both word modes (symbolic): the result is a *character* index in
/// [0, #chars] and equals the reference motion; count_chars_bytes agrees with the UTF-8 layout.
macro_rules! motion_for {
    ($name:ident, $len:expr, $first:expr, $unw:expr) => {
        #[kani::proof]
        #[kani::unwind($unw)]
        #[kani::stub(char::is_whitespace, stub_is_whitespace)]
        #[kani::stub(char::is_alphanumeric, stub_is_alphanumeric)]
        fn $name() {
            let full_word: bool = kani::any();
            let n: usize = $len;
            let first: Option<usize> = $first;
            let mut sel = [0usize; 3];
            // all strings of n characters; when `first` is given only those starting with that character
            let total: usize = match (n, first) {
                (0, _) => 1,
                (1, None) => 5,
                (1, Some(_)) => 1,
                (2, None) => 25,
                (2, Some(_)) => 5,
                (_, None) => 125,
                (_, Some(_)) => 25,
            };
            let mut idx = 0;
            while idx < total {
                match first {
                    None => {
                        sel[0] = idx % 5;
                        sel[1] = (idx / 5) % 5;
                        sel[2] = (idx / 25) % 5;
                    }
                    Some(f) => {
                        sel[0] = f;
                        sel[1] = idx % 5;
                        sel[2] = (idx / 5) % 5;
                    }
                }
                let mut s = String::new();
                let mut v = ['\0'; 3];
                build(&sel, n, &mut s, &mut v);
                let chars = &v[..n];
                let mut cursor = 0;
                while cursor <= n {
                    let nx = find_word_next(&s, cursor, full_word);
                    assert!(nx <= n, "Ctrl+Right leaves the cursor beyond the end of the line (byte index used as character index)");
                    // "no next word" (only blanks follow the current word): the documents say "go to end of line"; landing
                    // on the trailing blanks instead is accepted (lenient where the word rules are not spelled out)
                    let want = spec_word_next(chars, cursor, full_word);
                    assert!(nx == want || (want == n && nx > cursor), "Ctrl+Right does not move to the start of the next word");
                    let bk = find_word_back(&s, cursor, full_word);
                    assert!(bk <= n && bk == spec_word_back(chars, cursor, full_word), "Ctrl+Left does not move to the start of the previous word");
                    let (bi, cc) = count_chars_bytes(&s, cursor);
                    let mut want_bi = 0;
                    let mut q = 0;
                    while q < cursor && q < n {
                        want_bi += chars[q].len_utf8();
                        q += 1;
                    }
                    assert!(cc == n && bi == want_bi, "character index -> byte index conversion wrong");
                    cursor += 1;
                }
                core::mem::forget(s);
                idx += 1;
            }
            kani::cover!(full_word);
            kani::cover!(!full_word);
        }
    };
}
motion_for!(c20_motion_len0, 0usize, None, 8);
motion_for!(c20_motion_len1, 1usize, None, 8);
motion_for!(c20_motion_len2_a, 2usize, Some(0), 8);
motion_for!(c20_motion_len2_space, 2usize, Some(1), 8);
motion_for!(c20_motion_len2_plus, 2usize, Some(2), 8);
motion_for!(c20_motion_len2_e_acute, 2usize, Some(3), 8);
motion_for!(c20_motion_len2_emoji, 2usize, Some(4), 8);
motion_for!(c20_motion_len3_space, 3usize, Some(1), 27);
motion_for!(c20_motion_len3_a, 3usize, Some(0), 27);

/// insert / remove at a character index: every string of N characters x every cursor (enumerated) x every
/// inserted character (symbolic): the character lands at the cursor, removing it again restores the text.
macro_rules! edit_for {
    ($name:ident, $len:expr, $ch:expr, $unw:expr) => {
        #[kani::proof]
        #[kani::unwind($unw)]
        fn $name() {
            let ch: char = $ch;
            let n: usize = $len;
            let mut sel = [0usize; 3];
            let total: usize = if n == 0 { 1 } else if n == 1 { 5 } else { 25 };
            // which of the enumerated (string, cursor) states is checked is chosen by the solver
            let pick: usize = kani::any();
            let mut idx = 0;
            let mut state = 0;
            while idx < total {
                sel[0] = idx % 5;
                sel[1] = (idx / 5) % 5;
                let mut cursor = 0;
                while cursor <= n {
                    if state == pick {
                        let mut s = String::new();
                        let mut v = ['\0'; 3];
                        build(&sel, n, &mut s, &mut v);
                        let chars = &v[..n];
                        let mut want_bi = 0;
                        let mut total_len = 0;
                        let mut q = 0;
                        while q < n {
                            if q < cursor { want_bi += chars[q].len_utf8(); }
                            total_len += chars[q].len_utf8();
                            q += 1;
                        }
                        insert_char_index(&mut s, cursor, ch);
                        let (bi2, cc2) = count_chars_bytes(&s, cursor + 1);
                        assert!(cc2 == n + 1 && bi2 == want_bi + ch.len_utf8() && s.len() == total_len + ch.len_utf8(), "inserted character not at the cursor");
                        let removed = remove_char_index(&mut s, cursor);
                        assert!(removed == ch && s.len() == total_len, "remove at the cursor does not undo the insert");
                        core::mem::forget(s);
                    }
                    state += 1;
                    cursor += 1;
                }
                idx += 1;
            }
            kani::cover!(pick == state - 1);
            kani::cover!(pick == 0);
        }
    };
}
edit_for!(c20_edit_len0_a, 0usize, 'a', 8);
edit_for!(c20_edit_len1_a, 1usize, 'a', 8);
edit_for!(c20_edit_len1_e_acute, 1usize, '\u{e9}', 8);
edit_for!(c20_edit_len1_emoji, 1usize, '\u{1F600}', 8);
edit_for!(c20_edit_len2_emoji, 2usize, '\u{1F600}', 27);

/// get_next_command: a submitted line of exactly N bytes over {a, ';', space} (N concrete per harness) is split
/// at ';' into the same pieces, in order, then the head index resets
fn split_body(n: usize) {
    let b: [u8; 3] = kani::any();
    let mut k = 0;
    while k < 3 {
        kani::assume(b[k] == b'a' || b[k] == b';' || b[k] == b' ');
        k += 1;
    }
    let mut line = String::new();
    let mut k = 0;
    while k < n {
        line.push(b[k] as char);
        k += 1;
    }
    let mut t = Terminal {
        stderr: io::stderr(),
        buffer: line,
        cursor: 0,
        visible_cursor: 0,
        history: TerminalHistory { list: Vec::new(), index: 0, file: None },
    };
    // reference: pieces between ';'
    let mut start = 0;
    let mut rounds = 0;
    loop {
        let mut end = start;
        while end < n && b[end] != b';' {
            end += 1;
        }
        let l = t.get_next_command().len();
        assert!(l == end - start, "command piece has the wrong length");
        if end == n {
            assert!(t.cursor == 0, "head index not reset after the last command of the line");
            break;
        }
        start = end + 1;
        if start == n {
            // trailing ';': the next call returns the empty rest and resets
            let l2 = t.get_next_command().len();
            assert!(l2 == 0 && t.cursor == 0);
            break;
        }
        rounds += 1;
        assert!(rounds <= 3);
    }
    kani::cover!(rounds >= 1 || n == 1, "a line with more than one command");
    core::mem::forget(t);
}
#[kani::proof]
#[kani::unwind(8)]
fn c20_next_command_split_len1() {
    split_body(1);
}
#[kani::proof]
#[kani::unwind(8)]
fn c20_next_command_split_len2() {
    split_body(2);
}
#[kani::proof]
#[kani::unwind(8)]
fn c20_next_command_split_len3() {
    split_body(3);
}

// ------------------------------------------------------------------ one handle_key step from every valid editor state
// States: every buffer of exactly N characters over the alphabet x every cursor in [0, N] (enumerated concretely,
// see above), empty history.  One key of the harness's kind (the inserted character is symbolic).  Asserted: no
// panic, the cursor stays within [0, #chars], and buffer + cursor equal the reference editor's.  One step from
// every valid state of the bound covers key sequences of any length that stay within the bound.
#[derive(Clone, Copy, PartialEq)]
enum K {
    Char,
    Backspace,
    Delete,
    Left,
    Right,
    CtrlLeft,
    CtrlRight,
    Up,
    Down,
    Enter,
}

fn handle_key_body(kind: K, n: usize) {
    // the typed character is the 2-byte one (a symbolic character through handle_key did not finish in 25 min;
    // insertion of every character of the alphabet is c20_edit_*)
    let ins_sel: usize = 3;
    let ch = match ins_sel { 0 => 'a', 1 => ' ', 2 => '+', 3 => '\u{e9}', _ => '\u{1F600}' };
    let mut sel = [0usize; 3];
    let total: usize = if n == 0 { 1 } else if n == 1 { 5 } else if n == 2 { 25 } else { 125 };
    let mut idx = 0;
    while idx < total {
        sel[0] = idx % 5;
        sel[1] = (idx / 5) % 5;
        sel[2] = (idx / 25) % 5;
        let mut cursor = 0;
        while cursor <= n {
            let mut s = String::new();
            let mut v = ['\0'; 3];
            build(&sel, n, &mut s, &mut v);
            let chars = &v[..n];
            let mut t = Terminal {
                stderr: io::stderr(),
                buffer: s,
                cursor: 0,
                visible_cursor: cursor,
                history: TerminalHistory { list: Vec::new(), index: 0, file: None },
            };
            let key = match kind {
                K::Char => Key::Char(ch),
                K::Backspace => Key::Backspace,
                K::Delete => Key::Delete,
                K::Left => Key::Left,
                K::Right => Key::Right,
                K::CtrlLeft => Key::CtrlLeft,
                K::CtrlRight => Key::CtrlRight,
                K::Up => Key::Up,
                K::Down => Key::Down,
                K::Enter => Key::Enter,
            };
            let submitted = t.handle_key(key);
            // reference editor
            let mut want_len = n;
            let mut want_cursor = cursor;
            let mut want_submit = false;
            let blank = {
                let mut b = true;
                let mut q = 0;
                while q < n { if chars[q] != ' ' { b = false; } q += 1; }
                b
            };
            match kind {
                K::Char => { want_len = n + 1; want_cursor = cursor + 1; }
                K::Backspace => if cursor > 0 { want_len = n - 1; want_cursor = cursor - 1; },
                K::Delete => if cursor < n { want_len = n - 1; },
                K::Left => if cursor > 0 { want_cursor = cursor - 1; },
                K::Right => if cursor < n { want_cursor = cursor + 1; },
                K::CtrlLeft => want_cursor = spec_word_back(chars, cursor, false),
                K::CtrlRight => {
                    want_cursor = spec_word_next(chars, cursor, false);
                    if want_cursor == n && t.visible_cursor > cursor && t.visible_cursor <= n {
                        want_cursor = t.visible_cursor; // trailing blanks: see c20_motion_*
                    }
                }
                K::Up | K::Down => (),
                K::Enter => if blank { want_len = 0; want_cursor = 0; } else { want_submit = true; },
            }
            let (_, got_len) = count_chars_bytes(&t.buffer, 0);
            assert!(t.visible_cursor <= got_len, "cursor outside the edited line after a key");
            assert!(got_len == want_len && t.visible_cursor == want_cursor && submitted == want_submit,
                "line / cursor / submission differ from the reference editor after one key");
            if kind == K::Char {
                let (bi, _) = count_chars_bytes(&t.buffer, cursor);
                let mut want_bi = 0;
                let mut q = 0;
                while q < cursor { want_bi += chars[q].len_utf8(); q += 1; }
                assert!(bi == want_bi && t.buffer.len() == {
                    let mut tot = ch.len_utf8();
                    let mut q = 0;
                    while q < n { tot += chars[q].len_utf8(); q += 1; }
                    tot
                }, "typed character not inserted at the cursor");
            }
            core::mem::forget(t);
            cursor += 1;
        }
        idx += 1;
    }
    kani::cover!(true);
}

macro_rules! handle_key {
    ($name:ident, $kind:expr, $n:expr, $unw:expr) => {
        #[kani::proof]
        #[kani::unwind($unw)]
        #[kani::stub(char::is_whitespace, stub_is_whitespace)]
        #[kani::stub(char::is_alphanumeric, stub_is_alphanumeric)]
        fn $name() {
            handle_key_body($kind, $n);
        }
    };
}
handle_key!(c20_key_char_len1, K::Char, 1usize, 8);
handle_key!(c20_key_backspace_len2, K::Backspace, 2usize, 27);
handle_key!(c20_key_delete_len2, K::Delete, 2usize, 27);
handle_key!(c20_key_left_right_len1, K::Left, 1usize, 8);
handle_key!(c20_key_right_len1, K::Right, 1usize, 8);
handle_key!(c20_key_ctrl_left_len2, K::CtrlLeft, 2usize, 27);
handle_key!(c20_key_ctrl_right_len1, K::CtrlRight, 1usize, 8);
handle_key!(c20_key_ctrl_right_len2, K::CtrlRight, 2usize, 27);
handle_key!(c20_key_up_len1, K::Up, 1usize, 8);
handle_key!(c20_key_down_len1, K::Down, 1usize, 8);
handle_key!(c20_key_enter_len1, K::Enter, 1usize, 8);
handle_key!(c20_key_enter_len2, K::Enter, 2usize, 27);
// (Enter trims the line: `str::trim` on a 2-character line with a 4-byte character needs a larger unwinding bound)
