//! cfg(kani) child of src/output.rs: the print sink stub.
#![allow(dead_code, unused_imports)]
use super::*;
use crate::verif_h::capture;
use core::fmt::Write as _;

/// Replacement for `Output::print_fmt` (every print/println of `Output` funnels through it):
/// `Output::Normal` (program output) is captured as code points, `Output::Debugger` text is only counted.
/// The real sinks are `print!`/`eprint!` which Kani turns into no-ops anyway; ANSI decoration is not the subject.
pub(crate) fn print_fmt_capture(this: &Output, args: fmt::Arguments) {
    match this {
        Output::Normal => {
            let _ = capture::Sink.write_fmt(args);
        }
        Output::Debugger(..) => unsafe {
            capture::DEBUGGER_CHARS += 1;
        },
    }
}

/// Same, but program output is only *counted* (harnesses that only need "no program output").
pub(crate) fn print_fmt_count(this: &Output, _args: fmt::Arguments) {
    match this {
        Output::Normal => unsafe {
            capture::LEN += 1;
        },
        Output::Debugger(..) => unsafe {
            capture::DEBUGGER_CHARS += 1;
        },
    }
}

pub(crate) fn set_minimal_any() -> bool {
    let m: bool = kani::any();
    Output::set_minimal(m);
    m
}
