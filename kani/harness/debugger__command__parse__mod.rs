//! cfg(kani) child of src/debugger/command/parse/mod.rs: C14 H-loc, H-args, count clamp.
#![allow(dead_code, unused_imports)]
use super::*;
use crate::verif_h::cmdspec::{self, IntR};
use crate::verif_h::stubs;

macro_rules! ascii_str {
    ($buf:ident, $n:ident, $s:ident, $cap:expr) => {
        let $buf: [u8; $cap] = kani::any();
        let $n: usize = kani::any();
        kani::assume($n <= $cap);
        let mut k = 0;
        while k < $cap {
            kani::assume($buf[k] < 0x80 && $buf[k] != b';' && $buf[k] != b'\n');
            k += 1;
        }
        let $s: &str = unsafe { core::str::from_utf8_unchecked(&$buf[..$n]) };
    };
}

/// reference results, as plain data
#[derive(Clone, Copy, PartialEq)]
enum LocR {
    NotThis,
    Bad,
    Reg(u16),
    PcOff(i16),
    Addr(u16),
    /// label name length, offset
    Label(usize, i16),
}

fn spec_register(s: &[u8]) -> LocR {
    if s.len() < 2 || !(s[0] == b'r' || s[0] == b'R') || !(b'0'..=b'7').contains(&s[1]) {
        return LocR::NotThis;
    }
    if s.len() == 2 {
        return LocR::Reg((s[1] - b'0') as u16);
    }
    if cmdspec::label_char(s[2]) {
        LocR::NotThis
    } else {
        LocR::Bad
    }
}
fn spec_pc_offset(s: &[u8]) -> LocR {
    if s.is_empty() || s[0] != b'^' {
        return LocR::NotThis;
    }
    if s.len() == 1 {
        return LocR::PcOff(0);
    }
    match cmdspec::int(&s[1..], false) {
        IntR::Val(v) if v >= -32768 && v <= 32767 => LocR::PcOff(v as i16),
        _ => LocR::Bad,
    }
}
fn spec_label(s: &[u8]) -> LocR {
    if s.is_empty() || !cmdspec::label_start(s[0]) {
        return LocR::NotThis;
    }
    let mut k = 1;
    while k < s.len() && cmdspec::label_char(s[k]) {
        k += 1;
    }
    if k == s.len() {
        return LocR::Label(k, 0);
    }
    match cmdspec::int(&s[k..], true) {
        IntR::Val(v) if v >= -32768 && v <= 32767 => LocR::Label(k, v as i16),
        _ => LocR::Bad,
    }
}
fn spec_memory_location(s: &[u8]) -> LocR {
    match spec_pc_offset(s) {
        LocR::NotThis => (),
        r => return r,
    }
    match cmdspec::int(s, false) {
        IntR::Val(v) => return if v >= 0 && v <= 0xFFFF { LocR::Addr(v as u16) } else { LocR::Bad },
        IntR::Bad => return LocR::Bad,
        IntR::NotInt => (),
    }
    spec_label(s)
}
fn spec_location(s: &[u8]) -> LocR {
    match spec_register(s) {
        LocR::NotThis => spec_memory_location(s),
        r => r,
    }
}

fn check_memloc(got: Result<Option<MemoryLocation>, error::Value>, want: LocR) {
    match want {
        LocR::NotThis => assert!(matches!(got, Ok(None)), "unrecognisable location token not reported as such"),
        LocR::Bad => assert!(got.is_err(), "malformed location accepted"),
        LocR::PcOff(o) => assert!(matches!(got, Ok(Some(MemoryLocation::PCOffset(x))) if x == o), "^offset parsed to another value"),
        LocR::Addr(a) => assert!(matches!(got, Ok(Some(MemoryLocation::Address(x))) if x == a), "address parsed to another value"),
        LocR::Label(len, o) => {
            assert!(matches!(got, Ok(Some(MemoryLocation::Label(ref l))) if l.name.len() == len && l.offset == o), "label+offset parsed wrongly")
        }
        LocR::Reg(_) => assert!(false),
    }
}

/// every ASCII string <= 4 bytes as a Location (register | memory location) vs the reference
#[kani::proof]
#[kani::unwind(6)]
fn c14_location_len4() {
    ascii_str!(buf, n, s, 4);
    let want = spec_location(&buf[..n]);
    let got = Location::try_parse(s);
    match want {
        LocR::Reg(r) => assert!(matches!(got, Ok(Some(Location::Register(x))) if x as u16 == r), "register parsed wrongly"),
        LocR::NotThis => assert!(matches!(got, Ok(None))),
        LocR::Bad => assert!(got.is_err(), "malformed location accepted"),
        w => match got {
            Ok(Some(Location::Memory(m))) => check_memloc(Ok(Some(m)), w),
            _ => assert!(false, "memory location rejected or taken for a register"),
        },
    }
    kani::cover!(matches!(want, LocR::Label(2, o) if o < 0));
    kani::cover!(matches!(want, LocR::PcOff(o) if o == -1));
    kani::cover!(matches!(want, LocR::Reg(7)));
    kani::cover!(matches!(want, LocR::Addr(a) if a == 0xff));
}

/// the naive pre-check never rejects what the real parser accepts (integers as integers; addresses / ^offsets
/// as memory locations), for every ASCII string <= 4 bytes
#[kani::proof]
#[kani::unwind(6)]
fn c14_naive_never_rejects_valid() {
    ascii_str!(buf, n, s, 4);
    let naive = NaiveType::try_from(s);
    if let Ok(Some(_)) = integer::Integer::try_parse(s) {
        assert!(matches!(naive, Ok(NaiveType::Integer) | Err(())), "a valid integer is pre-classified as another type");
    }
    if let Ok(Some(m)) = MemoryLocation::try_parse(s) {
        match m {
            MemoryLocation::Label(_) => (), // r0..r7 are deliberately not labels here (documented)
            _ => assert!(!matches!(naive, Ok(NaiveType::Register)), "a valid address/offset is pre-classified as a register"),
        }
    }
    kani::cover!(matches!(naive, Ok(NaiveType::Register)));
    kani::cover!(matches!(naive, Err(())) && n == 2);
}

/// argument tokenizer: tokens are the maximal runs of non-space characters, in order; nothing left => None
#[kani::proof]
#[kani::unwind(8)]
fn c14_arguments_tokens() {
    ascii_str!(buf, n, s, 5);
    let mut a = Arguments::from(s);
    // reference: first token
    let mut i = 0;
    while i < n && buf[i] == b' ' {
        i += 1;
    }
    let mut j = i;
    while j < n && buf[j] != b' ' {
        j += 1;
    }
    let t1 = a.next_token_str();
    if i == n {
        assert!(t1.is_none(), "token invented from blanks");
    } else {
        assert!(matches!(t1, Some(t) if t.len() == j - i && t.as_ptr() == buf[i..].as_ptr()), "first token is not the first run of non-blanks");
        // second token
        let mut i2 = j;
        while i2 < n && buf[i2] == b' ' {
            i2 += 1;
        }
        let mut j2 = i2;
        while j2 < n && buf[j2] != b' ' {
            j2 += 1;
        }
        let t2 = a.next_argument_str();
        if i2 == n {
            assert!(t2.is_none());
            assert!(a.arg_count() == 0);
        } else {
            assert!(matches!(t2, Some(t) if t.len() == j2 - i2 && t.as_ptr() == buf[i2..].as_ptr()), "second token wrong");
            assert!(a.arg_count() == 1, "argument count bookkeeping wrong");
        }
    }
    kani::cover!(i > 0 && j < n);
}

/// `step into` count: no argument => 1, 0 => 1, k => k (on the real argument parser)
#[kani::proof]
#[kani::unwind(8)]
#[kani::stub(alloc::fmt::format, stubs::fmt_format)]
fn c10_count_clamp() {
    let d: u8 = kani::any();
    kani::assume(d < 10);
    let buf = [b'0' + d, b' '];
    let n: usize = kani::any();
    kani::assume(n <= 2);
    let empty: bool = kani::any();
    let s: &str = if empty { "" } else { unsafe { core::str::from_utf8_unchecked(&buf[..1]) } };
    let mut a = Arguments::from(s);
    let got = a.next_positive_integer_or_default("count");
    let want: u16 = if empty || d == 0 { 1 } else { d as u16 };
    assert!(matches!(got, Ok(v) if v == want), "step into count default / clamp wrong");
    kani::cover!(!empty && d == 0);
    kani::cover!(empty);
    core::mem::forget(got);
}
