"""Harness registry: which Kani proof harnesses decide which property, in which tier,
with which bounds.  Everything evidence reports about a harness comes from here plus
the Kani log of the run."""

MAX_PARALLEL = 14

PROPERTIES = {}
HARNESSES = []

FMT = "alloc::fmt::format -> String::new()"
SYM = "symbol::with_symbol_table -> same closure on a harness-owned static map (shim FxHashMap)"
EXIT = "std::process::exit -> record code, assert it is the one the reference allows, end path"


def prop(pid, claim, outside, assumptions=()):
    PROPERTIES[pid] = {"claim": claim, "outside": outside, "assumptions": list(assumptions)}


def H(pid, name, file, tier="quick", **kw):
    d = dict(prop=pid, name=name, file=file, tier=tier)
    d.update(kw)
    HARNESSES.append(d)


def harnesses_for(pid, tier, seed=0):
    out = []
    for h in HARNESSES:
        if h["prop"] != pid:
            continue
        if tier == "quick" and h["tier"] != "quick":
            continue
        out.append(h)
    return out


# ------------------------------------------------------------------ C02
prop(
    "C02",
    "Each real instruction handler of RunState is symbolically executed on a fully nondeterministic machine "
    "(all 65,536 memory words, 8 registers, PC, CC incl. 'none', origin) for every instruction word of its opcode, "
    "and compared with a reference ISA step (registers, PC, CC, written word, and an arbitrary probe cell for the frame). "
    "No bound on values: the domain is complete per opcode.",
    "RTI (documented unimplemented); trap routines' output text beyond the stated string bound; dispatch is a separate "
    "harness (execute() with the real table, handlers compared by effect); dev-profile semantics (overflow checks on).",
    ["allocation never fails", "single thread", "memory object modelled by CBMC array theory (--arrays-uf-always)"],
)
RT = "src/runtime.rs"
for op, fn in [("br", "br"), ("add", "add"), ("ld", "ld"), ("st", "st"), ("jsr", "jsr"), ("and", "and"), ("ldr", "ldr"),
               ("str", "str"), ("not", "not"), ("ldi", "ldi"), ("sti", "sti"), ("jmp", "jmp"), ("lea", "lea")]:
    H("C02", f"runtime::verif_h::c02_{op}", RT, uf=True, covers=2, timeout=900,
      functions=[f"RunState::{fn}", "RunState::s_ext", "RunState::set_flags", "RunState::reg/reg_mut/mem/mem_mut"],
      what=f"{op.upper()}: every instruction word of the opcode x arbitrary machine state vs reference step",
      bounds="none on values; one instruction")
H("C02", "runtime::verif_h::c02_stack_on", RT, uf=True, covers=2, timeout=900,
  functions=["RunState::stack", "RunState::push_val", "RunState::pop_val", "features::stack"],
  what="PUSH/POP/CALL/RETS (flag on): every 0xD word x arbitrary state incl. R7 = 0 / 0xFFFF, PUSH/POP R7",
  bounds="none on values; one instruction")
H("C02", "runtime::verif_h::c02_sext", RT, covers=1, functions=["RunState::s_ext"],
  what="s_ext(v, bits) for every v and bits 1..15 vs arithmetic sign extension", bounds="complete")
H("C02", "runtime::verif_h::c02_stack_off_exits", RT, uf=True, stubs=[EXIT], covers=0,
  functions=["RunState::stack", "features::stack"],
  what="opcode 0xD with the extension off: exit(1) before anything executes", bounds="complete")
H("C02", "runtime::verif_h::c02_stack_off_exit_reached", RT, uf=True, stubs=[EXIT], covers=1, expect_cover_partial=True,
  functions=["RunState::stack"], what="reachability twin: exit(1) is reached", bounds="complete")
H("C02", "runtime::verif_h::c02_dispatch_effect", RT, uf=True, covers=2, timeout=1500,
  functions=["RunState::execute", "RunState::OP_TABLE"] ,
  what="execute() through the real table: every word with opcode not in {8,D,F} x arbitrary state vs reference step",
  bounds="none on values; one instruction")
H("C02", "runtime::verif_h::c02_dispatch_slots", RT, covers=1, functions=["RunState::OP_TABLE"],
  what="table slots 0x8/0xD/0xF are rti/stack/trap", bounds="complete")

# ------------------------------------------------------------------ C03
prop(
    "C03",
    "Loader: reject decision for symbolic first word and 0/1/3-word files, placement/initial registers at concrete "
    "origins with symbolic words and a symbolic probe cell.  Run loop: one arbitrary iteration of RunEnvironment::run() "
    "from an arbitrary machine (inductive step; the loop carries no other state without a debugger): stop at 0xFFFF, "
    "exit(0xEE) outside [origin,0xFE00) without fetching, otherwise execute(mem[PC]) with PC incremented.  Trap routines: "
    "real trap() with I/O stubs against the documented register/PC/output effects.",
    "placement at origins other than the listed ones; termination of arbitrary programs; exit status seen by the shell; "
    "byte->char mapping inside read_char; strings longer than the stated bound; REG table text; RunEnvironment::try_from's "
    "emission loop (C01 decides emit).",
    ["allocation never fails", "single thread"],
)
H("C03", "runtime::verif_h::c03_loop_inbounds_or_halt", RT, uf=True, covers=2, stubs=[EXIT, "RunState::execute -> probe that checks (instr == mem[PC], PC+1) and ends the path"],
  functions=["RunEnvironment::run", "RunState::check_pc_bounds"], what="one arbitrary loop iteration, PC in user space or 0xFFFF",
  bounds="one iteration from an arbitrary state (inductive step)")
H("C03", "runtime::verif_h::c03_loop_out_of_bounds", RT, uf=True, covers=1, stubs=[EXIT], allow_unsat=["in-bounds instruction is fetched"],
  functions=["RunEnvironment::run", "RunState::check_pc_bounds"], what="one arbitrary loop iteration, PC outside user space: exit(0xEE), no fetch",
  bounds="one iteration from an arbitrary state")
for n in (0, 2, 3):
    H("C03", f"runtime::verif_h::c03_load_reject_{n}", RT, covers=1, stubs=[EXIT], functions=["RunEnvironment::from_raw"],
      what=f"loader rejects: {n}-word file, symbolic first word, image does not fit / empty", bounds=f"file length {n} words")
for nm in ("3000_2", "0_1", "fffe_1", "fdff_3"):
    H("C03", f"runtime::verif_h::c03_load_place_{nm}", RT, covers=2, stubs=[EXIT], functions=["RunEnvironment::from_raw"],
      timeout=1500, what=f"loader placement at concrete origin/length {nm}, symbolic words, symbolic probe cell", bounds="origin and length concrete")

# ------------------------------------------------------------------ C01
AIR = "src/air.rs"
PAR = "src/parser.rs"
SYMF = "src/symbol.rs"
LEX = "src/lexer/mod.rs"
prop(
    "C01",
    "Compositional, bounded at the text layer.  Emission: AsmLine::emit()/bit_offs on every valid AIR statement (all registers, "
    "flags, every line/target pair, every in-range imm5/offset6, every trap vector and data word) equals a reference encoder "
    "written with sums and i32 arithmetic.  Parsing: parse_instr/parse_trap on token vectors with symbolic registers and 16-bit "
    "literals (Dec and Hex), any line number, chained with emit so the emitted word is compared with the encoding of the "
    "*operands*.  Label operands: defined-before => Ref(line), not yet defined => Unfilled(name), filled by backpatch.  "
    "Directives and literal lexing: token/character-level harnesses with stated length bounds.",
    "whole programs as text (composition of the layers is an argument, not a solver result); identifiers/literals longer than "
    "the stated byte bounds; non-BMP characters in .stringz; main.rs byte order (C06).",
    ["allocation never fails", "token spans lie inside the source (lexer harnesses establish it)"],
)
for nm, what in [
    ("c01_emit_alu", "ADD/AND (reg and imm5 forms)/NOT: all registers x every valid imm5 x any line"),
    ("c01_emit_pcrel9", "BR*/LD/LDI/LEA/ST/STI: every (line, target) pair, all flags/registers; Err iff distance out of 9 bits"),
    ("c01_emit_jsr_call", "JSR (11 bits) / CALL (10 bits): every (line, target) pair"),
    ("c01_emit_reg_forms", "JMP/JSRR/PUSH/POP/RET/RTI/RETS"),
    ("c01_emit_offs6", "LDR/STR: all registers x every valid offset6 (incl. all negatives)"),
    ("c01_emit_trap_raw", "TRAP vectors 0..255, raw data words"),
]:
    H("C01", f"air::verif_h::{nm}", AIR, covers=1, stubs=[FMT], functions=["AsmLine::emit", "AsmLine::bit_offs", "ImmediateOrReg::bits", "Flag::bits"],
      what=what, bounds="complete over valid AIR statements")
H("C01", "air::verif_h::c01_add_stmt_numbering", AIR, covers=1, functions=["Air::add_stmt", "Air::get", "Air::len"],
  what="statement numbering 1-based consecutive", bounds="<= 3 statements")
PE_FUNCS = ["AsmParser::parse_instr", "AsmParser::parse_trap", "AsmParser::expect_reg", "AsmParser::expect_lit", "AsmParser::expect_lit_or_reg",
            "AsmParser::expect_lit_or_label", "AsmParser::expect", "Label::try_fill", "AsmLine::backpatch", "Label::filled", "AsmLine::emit", "AsmLine::bit_offs"]
PE_STUBS = [FMT, SYM, "error::parse_generic_unexpected / parse_lit_range / parse_eof -> contract stubs (span inside source, kind displayable)"]
PE = {
    "c01_pe_add_imm": "ADD r,r,imm: every 16-bit literal (Dec/Hex): accepted iff in [-16,15], word = ISA encoding of the operands",
    "c01_pe_and_imm": "AND r,r,imm: idem",
    "c01_pe_add_reg": "ADD r,r,r", "c01_pe_and_reg": "AND r,r,r",
    "c01_pe_ldr": "LDR r,r,offset6: every literal: accepted iff in [-32,31], offset confined to bits 5:0",
    "c01_pe_str": "STR r,r,offset6: idem",
    "c01_pe_not": "NOT", "c01_pe_jmp": "JMP", "c01_pe_jsrr": "JSRR", "c01_pe_push": "PUSH", "c01_pe_pop": "POP",
    "c01_pe_ret": "RET", "c01_pe_rti": "RTI", "c01_pe_rets": "RETS",
    "c01_pe_br_lit": "BR #lit: field == literal for every line number, accepted iff 9-bit", "c01_pe_brn_lit": "BRn #lit",
    "c01_pe_ld_lit": "LD r #lit", "c01_pe_ldi_lit": "LDI r #lit", "c01_pe_lea_lit": "LEA r #lit", "c01_pe_st_lit": "ST r #lit",
    "c01_pe_sti_lit": "STI r #lit", "c01_pe_jsr_lit": "JSR #lit (11 bits)",
    "c01_pe_br_label": "BRzp label: label defined before / after / never / on the statement itself; parse -> backpatch -> emit",
    "c01_pe_ld_label": "LD r label: idem", "c01_pe_st_label": "ST r label: idem", "c01_pe_lea_label": "LEA r label: idem",
    "c01_pe_ldi_label": "LDI r label: idem", "c01_pe_sti_label": "STI r label: idem",
    "c01_pe_jsr_label": "JSR label (11 bits): idem", "c01_pe_call_label": "CALL label (10 bits): idem",
    "c01_pe_trap": "named traps -> vectors x20..x27; TRAP with every 16-bit literal: accepted iff <= xFF",
}
C01_QUICK_PE = ["c01_pe_add_imm", "c01_pe_and_reg", "c01_pe_ldr", "c01_pe_str", "c01_pe_not", "c01_pe_jsrr", "c01_pe_push",
                "c01_pe_br_lit", "c01_pe_ld_lit", "c01_pe_jsr_lit", "c01_pe_br_label", "c01_pe_ld_label", "c01_pe_sti_label",
                "c01_pe_call_label", "c01_pe_trap"]
for nm, what in PE.items():
    H("C01", f"parser::verif_h::{nm}", PAR, tier=("quick" if nm in C01_QUICK_PE else "thorough"), covers=1, stubs=PE_STUBS, timeout=1500,
      functions=PE_FUNCS, what=what, bounds="one statement; mnemonic fixed per harness; registers, 16-bit literal value, Dec/Hex spelling, "
      "line number (and label line) symbolic; label name 'ab'")

# ------------------------------------------------------------------ C04
prop(
    "C04",
    "Range checks: expect_lit for every Bits the parser uses on every 16-bit literal (Dec/Hex): accepted iff in the documented "
    "range, value unchanged.  bit_offs for every (line, target, width): Ok iff the distance fits.  Parse-then-emit chains (shared "
    "with C01) show no operand spills into a neighbouring field.  Duplicate / undefined labels and repeated .orig on the real "
    "symbol-table functions.",
    "label distances produced by real .blkw padding (the distance arithmetic is decided for all line pairs instead); "
    "lexer literal range beyond the stated digit bound.",
    ["signed fields read a 16-bit literal as two's complement (xFFFF is -1): the lenient reading"],
)
for nm, what in [("c04_range_imm5", "imm5"), ("c04_range_offs6", "offset6"), ("c04_range_pc9", "PCoffset9"), ("c04_range_pc11", "PCoffset11"),
                 ("c04_range_trap8", "trap vector 0..255"), ("c04_range_orig16", ".orig / 16-bit")]:
    H("C04", f"parser::verif_h::{nm}", PAR, covers=1, stubs=[FMT], functions=["AsmParser::expect_lit", "AsmParser::expect_where"],
      what=f"expect_lit range check for {what}: every 16-bit literal value, Dec and Hex tokens", bounds="complete")
H("C04", "air::verif_h::c04_bit_offs", AIR, covers=3, stubs=[FMT], functions=["AsmLine::bit_offs"],
  what="bit_offs: every (line, target) x width 9/10/11: Ok iff distance in range, incl. the i16 extremes", bounds="complete")
H("C04", "air::verif_h::c04_orig_once", AIR, covers=1, stubs=[FMT], functions=["Air::set_orig", "Air::orig"], what=".orig at most once", bounds="complete")
H("C04", "symbol::verif_h::c04_label_dup_undef", SYMF, covers=1, stubs=[FMT, SYM], functions=["Label::insert", "Label::filled", "Label::try_fill"],
  what="duplicate label rejected, undefined label rejected, defined label resolves to its line", bounds="names a/A/b; symbolic lines")
for nm in ("c01_pe_add_imm", "c01_pe_str", "c01_pe_br_lit", "c01_pe_jsr_lit", "c01_pe_trap", "c01_pe_br_label", "c01_pe_call_label"):
    H("C04", f"parser::verif_h::{nm}", PAR, covers=1, stubs=PE_STUBS, timeout=1500, functions=PE_FUNCS,
      what="parse -> (backpatch) -> emit chain: accepted iff the operand fits its field, no spill into a neighbouring field: " + PE[nm],
      bounds="one statement; operands symbolic")
for nm in ("c01_pe_and_imm", "c01_pe_ldr", "c01_pe_ld_lit", "c01_pe_st_lit", "c01_pe_jsr_label", "c01_pe_ld_label"):
    H("C04", f"parser::verif_h::{nm}", PAR, tier="thorough", covers=1, stubs=PE_STUBS, timeout=1500, functions=PE_FUNCS,
      what="parse -> emit chain: " + PE[nm], bounds="one statement; operands symbolic")

# ------------------------------------------------------------------ C19
prop(
    "C19",
    "reset_state() empties the symbol table from any table of <= 3 entries; after it a fresh insert succeeds and every lookup "
    "misses; token-level assembly B after (assembly A; reset) equals B on an empty table; StaticSource new/src/reclaim is "
    "memory-safe under Kani's pointer checks.",
    "the thread-local is modelled by a static (kani-compiler cannot compile a drop-carrying thread_local); lace watch itself.",
    [],
)
H("C19", "symbol::verif_h::c19_reset_empties", SYMF, covers=1, stubs=[FMT, SYM], functions=["reset_state", "Label::insert", "Label::try_fill"],
  what="after reset_state every lookup misses and re-definition succeeds", bounds="<= 3 entries from {a,b,ab}, symbolic lines")
H("C19", "symbol::verif_h::c19_static_source", SYMF, covers=1, functions=["StaticSource::new", "StaticSource::src", "StaticSource::reclaim"],
  what="StaticSource lifetime: new -> src -> reclaim without invalid access", bounds="3-byte source")

# ------------------------------------------------------------------ debugger properties
DBG = "src/debugger/mod.rs"
BPF = "src/debugger/breakpoint.rs"
PRINT = "Output::print_fmt -> counter (program output counted, debugger text dropped)"
READ = "Command::read_from -> arbitrary parsed command from the harness's command group (text->command is C14)"
EVALCUT = "debugger::eval::eval -> path cut (C15 decides eval)"
DBG_STUBS = [FMT, SYM, PRINT, READ, EVALCUT]
DBG_INV = ["debugger representation invariant: initial_state.pc == asm_source.orig == state.orig; breakpoints sorted, duplicate-free, >= orig",
           "label line L >= 1 and orig + L - 1 <= 0xFFFF (what the parser/loader produce)"]

prop(
    "C13",
    "Debugger::run_command on one arbitrary parsed move/goto/break add/remove/print/registers/assembly/break list command from an "
    "arbitrary machine (both 64K memories symbolic), arbitrary origin, PC, label line, 16-bit address / i16 offset: exactly the "
    "named register/word/PC changes and only for a user-space target; i32 reference for label+offset and PC-offset arithmetic.",
    "command text parsing (C14); eval (C15); the non-minimal assembly context printer's text.",
    DBG_INV,
)
H("C13", "debugger::verif_h::c13_move_goto", DBG, uf=True, covers=3, stubs=DBG_STUBS, timeout=2400, mem_gb=24,
  functions=["Debugger::run_command", "Debugger::resolve_location", "Debugger::resolve_pc_offset", "Debugger::resolve_label",
             "Debugger::add_address_offset", "Debugger::expect_userspace_address", "resolve_symbol_address"],
  what="one arbitrary move / goto (register, absolute, PC offset, label+offset) from an arbitrary machine",
  bounds="one command; <= 2 breakpoints; label name 'ab'")

# ------------------------------------------------------------------ not applicable / not (yet) claimed
NOT_APPLICABLE = {
    "C06": "object-file I/O and CLI live in the binary's main()/run() behind clap/File/fs (FFI): cannot be executed symbolically; "
           "only the loader kernel from_raw is reachable and is decided under C03",
    "C07": "agreement of three subcommands' exit status; the wiring is in main.rs (clap, fs), and the shortest disagreeing input needs "
           ">= 257 statements of text, far beyond what the lexer can be symbolically executed on",
    "C08": "file-system atomicity of a process under injected write faults (File::create / write in main.rs): outside symbolic execution",
    "C05": "check under construction in this session (lexer/parser totality harnesses)",
    "C09": "check under construction in this session", "C10": "check under construction in this session",
    "C11": "check under construction in this session", "C12": "check under construction in this session",
    "C14": "check under construction in this session", "C15": "check under construction in this session",
    "C16": "check under construction in this session", "C17": "check under construction in this session",
    "C18": "check under construction in this session", "C20": "check under construction in this session",
}
