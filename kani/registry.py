"""Harness registry: which Kani proof harnesses decide which property, in which tier,
with which bounds.  Everything evidence reports about a harness comes from here plus
the Kani log of the run."""

MAX_PARALLEL = 14

PROPERTIES = {}
HARNESSES = []
NOT_APPLICABLE = {
    "C06": "object-file I/O and CLI live in the binary's main()/run() behind clap/File/fs (FFI): cannot be executed symbolically; "
           "only the loader kernel from_raw is reachable and is decided under C03",
    "C07": "agreement of three subcommands' exit status; the wiring is in main.rs (clap, fs), and the shortest disagreeing input needs "
           ">= 257 statements of text, far beyond what the lexer can be symbolically executed on",
    "C08": "file-system atomicity of a process under injected write faults (File::create / write in main.rs): outside symbolic execution",
}

FMT = "alloc::fmt::format -> String::new()"
SYM = "symbol::with_symbol_table -> same closure on a harness-owned static map (shim FxHashMap)"
EXIT = "std::process::exit -> record code, assert it is the one the reference allows, end path"


def prop(pid, claim, outside, assumptions=()):
    PROPERTIES[pid] = {"claim": claim, "outside": outside, "assumptions": list(assumptions)}


def H(pid, name, file, tier="quick", **kw):
    d = dict(prop=pid, name=name, file=file, tier=tier)
    d.update(kw)
    # native replay (Kani concrete playback runs the harness with #[kani::stub] inactive) is meaningful only when the
    # harness behaves the same without its stubs: formatting, the symbol-table thread-local and the diagnostics
    # constructors do; exit / I/O / command-reader / over-approximating stubs do not.
    if "replayable" not in d:
        d["replayable"] = (not d.get("uf")) and all(s in (FMT, SYM) or s.startswith("error::parse_generic_unexpected") for s in d.get("stubs", []))
        # (uf = the harness uses the unconstrained 64K memory object, whose contents concrete playback cannot set)
    HARNESSES.append(d)


def harnesses_for(pid, tier, seed=0):
    out = []
    for h in HARNESSES:
        if h["prop"] != pid:
            continue
        if tier == "quick" and h["tier"] != "quick":
            continue
        out.append(h)
    return out


# ------------------------------------------------------------------ C02
prop(
    "C02",
    "Each real instruction handler of RunState is symbolically executed on a fully nondeterministic machine "
    "(all 65,536 memory words, 8 registers, PC, CC incl. 'none', origin) for every instruction word of its opcode, "
    "and compared with a reference ISA step (registers, PC, CC, written word, and an arbitrary probe cell for the frame). "
    "No bound on values: the domain is complete per opcode.",
    "RTI (documented unimplemented); trap routines' output text beyond the stated string bound; dispatch is a separate "
    "harness (execute() with the real table, handlers compared by effect); dev-profile semantics (overflow checks on).",
    ["allocation never fails", "single thread", "memory object modelled by CBMC array theory (--arrays-uf-always)"],
)
RT = "src/runtime.rs"
for op, fn in [("br", "br"), ("add", "add"), ("ld", "ld"), ("st", "st"), ("jsr", "jsr"), ("and", "and"), ("ldr", "ldr"),
               ("str", "str"), ("not", "not"), ("ldi", "ldi"), ("sti", "sti"), ("jmp", "jmp"), ("lea", "lea")]:
    H("C02", f"runtime::verif_h::c02_{op}", RT, uf=True, covers=2, timeout=900,
      functions=[f"RunState::{fn}", "RunState::s_ext", "RunState::set_flags", "RunState::reg/reg_mut/mem/mem_mut"],
      what=f"{op.upper()}: every instruction word of the opcode x arbitrary machine state vs reference step",
      bounds="none on values; one instruction")
H("C02", "runtime::verif_h::c02_stack_on", RT, uf=True, covers=2, timeout=900,
  functions=["RunState::stack", "RunState::push_val", "RunState::pop_val", "features::stack"],
  what="PUSH/POP/CALL/RETS (flag on): every 0xD word x arbitrary state incl. R7 = 0 / 0xFFFF, PUSH/POP R7",
  bounds="none on values; one instruction")
H("C02", "runtime::verif_h::c02_sext", RT, covers=1, functions=["RunState::s_ext"],
  what="s_ext(v, bits) for every v and bits 1..15 vs arithmetic sign extension", bounds="complete")
H("C02", "runtime::verif_h::c02_stack_off_exits", RT, uf=True, stubs=[EXIT], covers=0,
  functions=["RunState::stack", "features::stack"],
  what="opcode 0xD with the extension off: exit(1) before anything executes", bounds="complete")
H("C02", "runtime::verif_h::c02_stack_off_exit_reached", RT, uf=True, stubs=[EXIT], covers=1, expect_cover_partial=True,
  functions=["RunState::stack"], what="reachability twin: exit(1) is reached", bounds="complete")
H("C02", "runtime::verif_h::c02_dispatch_effect", RT, tier="thorough", uf=True, covers=2, timeout=3000, stubs=["RunState::trap / RunState::stack -> path cut (opcodes excluded by assumption)"],
  functions=["RunState::execute", "RunState::OP_TABLE"] ,
  what="execute() through the real table: every word with opcode not in {8,D,F} x arbitrary state vs reference step",
  bounds="none on values; one instruction")
H("C02", "runtime::verif_h::c02_dispatch_slots", RT, tier="thorough", timeout=3000, uf=True, covers=2, functions=["RunState::execute", "RunState::OP_TABLE"],
  stubs=["RunState::trap / RunState::stack -> tag recorders"], what="opcodes 0xD / 0xF are dispatched to the stack / trap handler with the word itself", bounds="complete")

# ------------------------------------------------------------------ C03
prop(
    "C03",
    "Loader: reject decision for symbolic first word and 0/1/3-word files, placement/initial registers at concrete "
    "origins with symbolic words and a symbolic probe cell.  Run loop: one arbitrary iteration of RunEnvironment::run() "
    "from an arbitrary machine (inductive step; the loop carries no other state without a debugger): stop at 0xFFFF, "
    "exit(0xEE) outside [origin,0xFE00) without fetching, otherwise execute(mem[PC]) with PC incremented.  Trap routines: "
    "real trap() with I/O stubs against the documented register/PC/output effects.",
    "placement at origins other than the listed ones; termination of arbitrary programs; exit status seen by the shell; "
    "byte->char mapping inside read_char; strings longer than the stated bound; REG table text; RunEnvironment::try_from's "
    "emission loop (C01 decides emit).",
    ["allocation never fails", "single thread"],
)
H("C03", "runtime::verif_h::c03_loop_inbounds_or_halt", RT, uf=True, covers=2, stubs=[EXIT, "RunState::execute -> probe that checks (instr == mem[PC], PC+1) and ends the path"],
  functions=["RunEnvironment::run", "RunState::check_pc_bounds"], what="one arbitrary loop iteration, PC in user space or 0xFFFF",
  bounds="one iteration from an arbitrary state (inductive step)")
H("C03", "runtime::verif_h::c03_loop_out_of_bounds", RT, uf=True, covers=1, stubs=[EXIT], allow_unsat=["in-bounds instruction is fetched"],
  functions=["RunEnvironment::run", "RunState::check_pc_bounds"], what="one arbitrary loop iteration, PC outside user space: exit(0xEE), no fetch",
  bounds="one iteration from an arbitrary state")
for n in (0, 2, 3):
    H("C03", f"runtime::verif_h::c03_load_reject_{n}", RT, covers=1, stubs=[EXIT], functions=["RunEnvironment::from_raw"],
      what=f"loader rejects: {n}-word file, symbolic first word, image does not fit / empty", bounds=f"file length {n} words")
for nm in ("3000_2", "4000_0", "0_1", "fffe_1", "fdff_3"):
    H("C03", f"runtime::verif_h::c03_load_place_{nm}", RT, covers=(1 if nm.endswith("_0") else 2), stubs=[EXIT], functions=["RunEnvironment::from_raw"],
      allow_unsat=(["expect == 0xABCD"] if nm.endswith("_0") else []),
      timeout=1500, what=f"loader placement at concrete origin/length {nm}, symbolic words, symbolic probe cell", bounds="origin and length concrete")

# ------------------------------------------------------------------ C01
AIR = "src/air.rs"
PAR = "src/parser.rs"
SYMF = "src/symbol.rs"
LEX = "src/lexer/mod.rs"
prop(
    "C01",
    "Compositional, bounded at the text layer.  Emission: AsmLine::emit()/bit_offs on every valid AIR statement (all registers, "
    "flags, every line/target pair, every in-range imm5/offset6, every trap vector and data word) equals a reference encoder "
    "written with sums and i32 arithmetic.  Parsing: parse_instr/parse_trap on token vectors with symbolic registers and 16-bit "
    "literals (Dec and Hex), any line number, chained with emit so the emitted word is compared with the encoding of the "
    "*operands*.  Label operands: defined-before => Ref(line), not yet defined => Unfilled(name), filled by backpatch.  "
    "Directives and literal lexing: token/character-level harnesses with stated length bounds.",
    "whole programs as text (composition of the layers is an argument, not a solver result); identifiers/literals longer than "
    "the stated byte bounds; non-BMP characters in .stringz; main.rs byte order (C06).",
    ["allocation never fails", "token spans lie inside the source (lexer harnesses establish it)"],
)
for nm, what in [
    ("c01_emit_alu", "ADD/AND (reg and imm5 forms)/NOT: all registers x every valid imm5 x any line"),
    ("c01_emit_pcrel9", "BR*/LD/LDI/LEA/ST/STI: every (line, target) pair, all flags/registers; Err iff distance out of 9 bits"),
    ("c01_emit_jsr_call", "JSR (11 bits) / CALL (10 bits): every (line, target) pair"),
    ("c01_emit_reg_forms", "JMP/JSRR/PUSH/POP/RET/RTI/RETS"),
    ("c01_emit_offs6", "LDR/STR: all registers x every valid offset6 (incl. all negatives)"),
    ("c01_emit_trap_raw", "TRAP vectors 0..255, raw data words"),
]:
    H("C01", f"air::verif_h::{nm}", AIR, covers=1, stubs=[FMT], functions=["AsmLine::emit", "AsmLine::bit_offs", "ImmediateOrReg::bits", "Flag::bits"],
      what=what, bounds="complete over valid AIR statements")
H("C01", "air::verif_h::c01_add_stmt_numbering", AIR, covers=1, functions=["Air::add_stmt", "Air::get", "Air::len"],
  what="statement numbering 1-based consecutive", bounds="<= 3 statements")
PE_FUNCS = ["AsmParser::parse_instr", "AsmParser::parse_trap", "AsmParser::expect_reg", "AsmParser::expect_lit", "AsmParser::expect_lit_or_reg",
            "AsmParser::expect_lit_or_label", "AsmParser::expect", "Label::try_fill", "AsmLine::backpatch", "Label::filled", "AsmLine::emit", "AsmLine::bit_offs"]
PE_STUBS = [FMT, SYM, "error::parse_generic_unexpected / parse_lit_range / parse_eof -> contract stubs (span inside source, kind displayable)"]
PE = {
    "c01_pe_add_imm": "ADD r,r,imm: every 16-bit literal (Dec/Hex): accepted iff in [-16,15], word = ISA encoding of the operands",
    "c01_pe_and_imm": "AND r,r,imm: idem",
    "c01_pe_add_reg": "ADD r,r,r", "c01_pe_and_reg": "AND r,r,r",
    "c01_pe_ldr": "LDR r,r,offset6: every literal: accepted iff in [-32,31], offset confined to bits 5:0",
    "c01_pe_str": "STR r,r,offset6: idem",
    "c01_pe_not": "NOT", "c01_pe_jmp": "JMP", "c01_pe_jsrr": "JSRR", "c01_pe_push": "PUSH", "c01_pe_pop": "POP",
    "c01_pe_ret": "RET", "c01_pe_rti": "RTI", "c01_pe_rets": "RETS",
    "c01_pe_br_lit": "BR #lit: field == literal for every line number, accepted iff 9-bit", "c01_pe_brn_lit": "BRn #lit",
    "c01_pe_ld_lit": "LD r #lit", "c01_pe_ldi_lit": "LDI r #lit", "c01_pe_lea_lit": "LEA r #lit", "c01_pe_st_lit": "ST r #lit",
    "c01_pe_sti_lit": "STI r #lit", "c01_pe_jsr_lit": "JSR #lit (11 bits)",
    "c01_pe_br_label_before": "BRzp label, label defined before the reference: parse -> backpatch -> emit; field = label line - own line - 1; Err iff out of range",
    "c01_pe_br_label_never": "BRzp label, never defined: backpatch rejects",
    "c01_pe_ld_label_before": "LD r label, defined before", "c01_pe_lea_label_before": "LEA r label, defined before",
    "c01_pe_sti_label_before": "STI r label, defined before", "c01_pe_jsr_label_before": "JSR label, defined before",
    "c01_pe_call_label_before": "CALL label (10 bits), defined before",
    "c01_pe_br_label_fwd": "BRp label not yet defined: statement carries the label's source text (first half of forward references)",
    "c01_pe_ld_label_fwd": "LD r fwd-label: idem", "c01_pe_ldi_label_fwd": "LDI: idem", "c01_pe_lea_label_fwd": "LEA: idem",
    "c01_pe_st_label_fwd": "ST: idem", "c01_pe_sti_label_fwd": "STI: idem", "c01_pe_jsr_label_fwd": "JSR: idem", "c01_pe_call_label_fwd": "CALL: idem",
    "c01_pe_call_label_never": "CALL label, never defined",
    "c01_pe_trap": "named traps -> vectors x20..x27; TRAP with every 16-bit literal: accepted iff <= xFF",
}
C01_QUICK_PE = ["c01_pe_add_imm", "c01_pe_and_reg", "c01_pe_ldr", "c01_pe_str", "c01_pe_not", "c01_pe_jsrr", "c01_pe_push",
                "c01_pe_br_lit", "c01_pe_ld_lit", "c01_pe_jsr_lit", "c01_pe_br_label_before", "c01_pe_br_label_never",
                "c01_pe_ld_label_fwd", "c01_pe_call_label_fwd", "c01_pe_call_label_before", "c01_pe_trap"]
for nm, what in PE.items():
    H("C01", f"parser::verif_h::{nm}", PAR, tier=("quick" if nm in C01_QUICK_PE else "thorough"), covers=1, stubs=PE_STUBS, timeout=1500,
      allow_unsat=(["w.is_"] if nm.endswith("_never") else []),
      functions=PE_FUNCS, what=what, bounds="one statement; mnemonic fixed per harness; registers, 16-bit literal value, Dec/Hex spelling, "
      "line number (and label line) symbolic; label name 'ab'")

for nm, q in [("br", True), ("ld", True), ("call", True), ("ldi", False), ("lea", False), ("st", False), ("sti", False), ("jsr", False)]:
    H("C01", f"air::verif_h::c01_backpatch_emit_{nm}", AIR, tier=("quick" if q else "thorough"), covers=2, stubs=[FMT, SYM], timeout=1500,
      functions=["AsmLine::backpatch", "Label::filled", "AsmLine::emit", "AsmLine::bit_offs"],
      what=f"{nm.upper()} with a forward reference Unfilled('ab'): real backpatch (label defined / never defined) then emit; field = label line - own line - 1",
      bounds="label name 'ab'; label line and own line symbolic")
for nm in ("br", "call"):
    H("C04", f"air::verif_h::c01_backpatch_emit_{nm}", AIR, covers=2, stubs=[FMT, SYM], timeout=1500,
      functions=["AsmLine::backpatch", "Label::filled", "AsmLine::emit", "AsmLine::bit_offs"],
      what=f"{nm.upper()} forward reference: undefined label rejected; distance beyond the field rejected", bounds="label name 'ab'")

# ------------------------------------------------------------------ C04
prop(
    "C04",
    "Range checks: expect_lit for every Bits the parser uses on every 16-bit literal (Dec/Hex): accepted iff in the documented "
    "range, value unchanged.  bit_offs for every (line, target, width): Ok iff the distance fits.  Parse-then-emit chains (shared "
    "with C01) show no operand spills into a neighbouring field.  Duplicate / undefined labels and repeated .orig on the real "
    "symbol-table functions.",
    "label distances produced by real .blkw padding (the distance arithmetic is decided for all line pairs instead); "
    "lexer literal range beyond the stated digit bound.",
    ["signed fields read a 16-bit literal as two's complement (xFFFF is -1): the lenient reading"],
)
for nm, what in [("c04_range_imm5", "imm5"), ("c04_range_offs6", "offset6"), ("c04_range_pc9", "PCoffset9"), ("c04_range_pc11", "PCoffset11"),
                 ("c04_range_trap8", "trap vector 0..255"), ("c04_range_orig16", ".orig / 16-bit")]:
    H("C04", f"parser::verif_h::{nm}", PAR, covers=1, stubs=[FMT], functions=["AsmParser::expect_lit", "AsmParser::expect_where"],
      what=f"expect_lit range check for {what}: every 16-bit literal value, Dec and Hex tokens", bounds="complete")
H("C04", "air::verif_h::c04_bit_offs", AIR, covers=3, stubs=[FMT], functions=["AsmLine::bit_offs"],
  what="bit_offs: every (line, target) x width 9/10/11: Ok iff distance in range, incl. the i16 extremes", bounds="complete")
H("C04", "air::verif_h::c04_orig_once", AIR, covers=1, stubs=[FMT], functions=["Air::set_orig", "Air::orig"], what=".orig at most once", bounds="complete")
H("C04", "symbol::verif_h::c04_label_dup_undef", SYMF, covers=1, stubs=[FMT, SYM], functions=["Label::insert", "Label::filled", "Label::try_fill"],
  what="duplicate label rejected, undefined label rejected, defined label resolves to its line", bounds="names a/A/b; symbolic lines")
for nm in ("c01_pe_add_imm", "c01_pe_str", "c01_pe_br_lit", "c01_pe_jsr_lit", "c01_pe_trap", "c01_pe_br_label_before", "c01_pe_br_label_never", "c01_pe_call_label_before"):
    H("C04", f"parser::verif_h::{nm}", PAR, covers=1, stubs=PE_STUBS, timeout=1500, functions=PE_FUNCS,
      allow_unsat=(["w.is_"] if nm.endswith("_never") else []),
      what="parse -> (backpatch) -> emit chain: accepted iff the operand fits its field, no spill into a neighbouring field: " + PE[nm],
      bounds="one statement; operands symbolic")
for nm in ("c01_pe_and_imm", "c01_pe_ldr", "c01_pe_ld_lit", "c01_pe_st_lit", "c01_pe_jsr_label_before", "c01_pe_ld_label_before"):
    H("C04", f"parser::verif_h::{nm}", PAR, tier="thorough", covers=1, stubs=PE_STUBS, timeout=1500, functions=PE_FUNCS,
      what="parse -> emit chain: " + PE[nm], bounds="one statement; operands symbolic")

# ------------------------------------------------------------------ C19
prop(
    "C19",
    "reset_state() empties the symbol table (1 / 3 entries recorded): every lookup misses afterwards and a "
    "re-definition succeeds; define/resolve 'ab'; reset; define it elsewhere or not at all: resolution follows the "
    "second source only, whether or not the first assembly had resolved the reference; StaticSource new/src/reclaim "
    "is memory-safe under Kani's pointer checks.",
    "the thread-local is modelled by a static (kani-compiler cannot compile a drop-carrying thread_local, so a "
    "change that adds *another* such thread-local makes the harnesses inconclusive rather than failing: seed "
    "C19-B); tables with hundreds of entries (seed C19-A); lace watch itself.",
    [],
)
for n in (1, 3):
    H("C19", f"symbol::verif_h::c19_reset_empties_{n}", SYMF, tier=("quick" if n == 1 else "thorough"), covers=1, stubs=[FMT, SYM], timeout=2400, mem_gb=24,
      functions=["reset_state", "Label::insert", "Label::try_fill"],
      what=f"after reset_state ({n} entries recorded) every lookup misses and re-definition succeeds", bounds=f"{n} entries from {{a,b,ab}}, symbolic lines")
H("C19", "symbol::verif_h::c19_static_source", SYMF, covers=1, functions=["StaticSource::new", "StaticSource::src", "StaticSource::reclaim"],
  what="StaticSource lifetime: new -> src -> reclaim without invalid access", bounds="3-byte source")

# ------------------------------------------------------------------ debugger properties
DBG = "src/debugger/mod.rs"
BPF = "src/debugger/breakpoint.rs"
PRINT = "Output::print_fmt -> counter (program output counted, debugger text dropped)"
READ = "Command::read_from -> arbitrary parsed command of the harness's command form (text->command is C14)"
EVALCUT = "debugger::eval::eval -> path cut (C15 decides eval)"
CUTS = "arms excluded by the harness's command form are cut at their callees (print_registers / print_integer / show_assembly_source / print_help_message -> assume(false))"
DBG_STUBS = [FMT, SYM, PRINT, READ, EVALCUT]
DBG_INV = ["debugger representation invariant: initial_state.pc == asm_source.orig == state.orig; breakpoints sorted, duplicate-free, >= orig",
           "label line L >= 1 and orig + L - 1 <= 0xFFFF (what the parser/loader produce)",
           "exactly 2 breakpoints with symbolic addresses unless stated (a list of symbolic length is intractable for Vec::insert/remove)"]
NA_FUNCS = ["Debugger::next_action", "Debugger::check_interrupts", "Debugger::run_command", "SignificantInstr::try_from", "RunState::check_pc_bounds",
            "Breakpoints::get"]


def DH(props, name, what, funcs, covers=1, cuts=True, tiers=None, bounds="one call / one command; 2 breakpoints; label name 'ab'", **kw):
    for k, pp in enumerate(props):
        H(pp, f"debugger::verif_h::{name}", DBG, tier=(tiers[k] if tiers else "quick"), uf=True, covers=covers,
          stubs=DBG_STUBS + ([CUTS] if cuts else []), timeout=3000, mem_gb=24, functions=funcs, what=what, bounds=bounds, **kw)


RUNNING = ("one real next_action from an arbitrary running configuration with status {} (any argument), 2 breakpoints at symbolic addresses, any "
           "marker/counters x arbitrary machine; only `quit` offered: pauses exactly at armed breakpoint / HALT / PC outside [origin,0xFE00) incl. "
           "0xFFFF / step-over return address; otherwise Proceed with the documented successor status; machine, breakpoints, program output "
           "untouched; marker re-armed; Proceed implies an instruction will execute (ranking lemma)")
prop(
    "C10",
    "One-step refinement of the stepping automaton: (a) one real next_action from an arbitrary running configuration (one harness per "
    "status kind) and machine, (b) one real run_command with an arbitrary resuming command (step, step into k for every k>=1, step out, "
    "continue, quit, exit; one harness each) from a paused debugger.  Because the start configuration is arbitrary, agreement on one "
    "transition gives agreement on every command history by induction; what executes between two calls is C02/C03.  The 0 -> 1 clamp "
    "of `step into` is checked on the real argument parser.",
    "the composition to whole sessions is an inductive argument, not a solver run; that 'step' over nested/recursive subroutines means "
    "what the user expects is a reading of help.txt (return address = PC+1 is what is checked).",
    DBG_INV,
)
prop(
    "C09",
    "Transparency as two solver-decided lemmas: L-frame -- every control step (next_action while running; resuming, inspection and "
    "breakpoint commands while paused) leaves registers, PC, CC, every memory word (symbolic probe) unchanged and writes nothing to the "
    "program's output; L-sched -- Proceed is returned only when the plain loop would execute mem[PC] next (PC in user space, not HALT), "
    "and quit/EOF hands the unchanged machine back to the plain loop (C03).",
    "the composition to whole runs and exit statuses is an argument; the run() loop's debugger branch itself (too heavy to execute "
    "symbolically with a debugger attached, DESIGN.md section 3) is covered only through next_action's contract; the command reader's "
    "text handling is C14.",
    DBG_INV,
)
prop(
    "C11",
    "Breakpoints::insert/remove/get on sorted duplicate-free lists of 0..3 entries with symbolic addresses (set semantics, sortedness); "
    "with_orig address arithmetic; break add/remove/list commands through run_command (user-space check, set semantics on a symbolic "
    "membership probe; one harness per command and list length); firing rule on one real next_action from an arbitrary configuration "
    "(pause iff an armed breakpoint is at PC); re-arming: the 'just paused here' marker is cleared as soon as an instruction executes, "
    "so a breakpoint fires on every return, including an immediate one (self-branch); .break marks the next statement's index.",
    ".break placement at text level beyond one statement.",
    DBG_INV,
)
prop(
    "C12",
    "run_command(Reset) on arbitrary live and saved machines (both 64K memories symbolic): afterwards registers, PC, CC, origin and a "
    "symbolic probe cell equal the saved ones, and the saved machine is unchanged; for one arbitrary command of any other kind the "
    "saved machine (registers, PC, CC, probe cell) is unchanged.",
    "'running on behaves like a fresh run' follows from equality of the complete state plus C03, as an argument; eval receives only the "
    "live machine by signature; how the saved machine is captured at load time (RunEnvironment::try_from) is read, not executed.",
    DBG_INV,
)
prop(
    "C13",
    "Debugger::run_command on one arbitrary parsed move/goto/break add/remove/print/registers/assembly/break list command (one harness "
    "per command form) from an arbitrary machine (both 64K memories symbolic), arbitrary origin, PC, label line, 16-bit address / i16 "
    "offset: exactly the named register/word/PC changes and only for a user-space target; i32 reference for label+offset and PC-offset "
    "arithmetic.",
    "command text parsing (C14); eval (C15); the non-minimal assembly context printer's text.",
    DBG_INV,
)
prop(
    "C16",
    "Ranking lemma, one call deep: the real next_action from an arbitrary running configuration (any PC incl. 0xFFFF, below origin, "
    ">= 0xFE00, on HALT; any status; 2 breakpoints): it either asks for a command (consumes input) or returns Proceed with PC in "
    "user space on a non-HALT word, i.e. the loop then executes an instruction; a StepInto count never grows.  `step` at PC = 0xFFFF "
    "(return address PC+1) does not overflow.",
    "the run() loop's own guards with a debugger attached are read, not executed symbolically (too heavy: DESIGN.md section 3); "
    "the lemma talks about exactly those guards (HALT at PC, check_pc_bounds).",
    DBG_INV,
)
prop(
    "C17",
    "Index/span arithmetic behind the debugger's view: label and PC-offset locations resolve to origin + line - 1 + "
    "offset (i32 reference) exactly when that is a user-space address; AsmSource maps address -> statement (address "
    "- origin) or none and shows exactly the statement's span (also with multi-byte characters before it); parse() "
    "builds a statement's span from its first token to the end of its last consumed operand (parse_instr replaced "
    "by its contract towards parse(): 'operands consumed up to byte E' / 'no operand'), expect()/expect_reg() "
    "record that end; directive spans = Span::join.",
    "that the sliced text 'looks like' the statement in a real file (comments/commas between operands) is implied "
    "only as an argument from byte-offset spans; the non-minimal context printer.",
    DBG_INV,
)

for nm, stname, tier in [("c10_running_continue", "Continue", "quick"), ("c10_running_finish", "Finish", "quick"),
                         ("c10_running_stepinto", "StepInto{count}", "quick"), ("c10_running_stepover", "StepOver{return_addr}", "quick")]:
    DH(["C10", "C09", "C11", "C16"], nm, RUNNING.format(stname), NA_FUNCS, covers=3,
       tiers=["quick", "quick" if nm in ("c10_running_continue", "c10_running_stepover") else "thorough",
              "quick" if nm == "c10_running_continue" else "thorough", "quick"])
for nm, cmd in [("c10_cmd_step", "step"), ("c10_cmd_stepinto", "step into k (every k >= 1)"), ("c10_cmd_stepout", "step out"),
                ("c10_cmd_continue", "continue"), ("c10_cmd_quit", "quit"), ("c10_cmd_exit", "exit")]:
    DH(["C10", "C16", "C09"], nm, f"`{cmd}` at a paused debugger, arbitrary machine and PC (incl. HALT, 0xFFFF): status armed as documented, refused on "
       "HALT, machine/breakpoints/program output untouched", ["Debugger::run_command", "Debugger::check_halt", "features::stack"], covers=2,
       tiers=["quick", "quick" if nm in ("c10_cmd_step", "c10_cmd_continue") else "thorough", "thorough"])
H("C18", "debugger::verif_h::c10_cmd_stepout", DBG, uf=True, covers=2, stubs=DBG_STUBS + [CUTS], timeout=3000, mem_gb=24, tier="thorough",
  functions=["Debugger::run_command", "features::stack"], what="`step out` availability follows the flag", bounds="one command")
H("C10", "debugger::command::parse::verif_h::c10_count_clamp", "src/debugger/command/parse/mod.rs", covers=2, stubs=[FMT],
  functions=["Arguments::next_positive_integer_or_default"], what="step into count: default 1, 0 -> 1", bounds="one decimal digit")

for nm, what in [("c13_move_reg", "move <register> v"), ("c13_move_addr", "move <absolute address> v"), ("c13_move_pcoff", "move ^offset v"),
                 ("c13_move_label", "move label+offset v"), ("c13_goto_addr", "goto <absolute address>"), ("c13_goto_pcoff", "goto ^offset"),
                 ("c13_goto_label", "goto label+offset")]:
    DH(["C13"], nm, what + ": exactly the named target changes, only for a user-space address (i32 reference arithmetic); everything else untouched",
       ["Debugger::run_command", "Debugger::resolve_location", "Debugger::resolve_pc_offset", "Debugger::resolve_label", "Debugger::add_address_offset",
        "Debugger::expect_userspace_address", "resolve_symbol_address"], covers=1, allow_unsat=["target refused", "upper half", "target in user space"])
DH(["C17", "C13"], "c17_resolve_location", "label+offset / PC+offset -> address vs i32 reference, every origin/line/offset/PC",
   ["Debugger::resolve_label", "Debugger::resolve_pc_offset", "Debugger::add_address_offset", "resolve_symbol_address"], covers=2, cuts=False, tiers=["quick", "thorough"])
for nm, what in [("c13_print_reg", "print <register>"), ("c13_print_addr", "print <address>"), ("c13_print_pcoff", "print ^offset"),
                 ("c13_print_label", "print label+offset"), ("c13_registers", "registers"), ("c13_echo_help", "echo / help"),
                 ("c13_assembly", "assembly <location> (minimal mode, empty AST)"), ("c13_breaklist", "break list (minimal mode)")]:
    q = nm in ("c13_print_addr", "c13_registers", "c13_assembly")
    DH(["C13", "C09"], nm, what + ": machine, status, breakpoints and program output untouched",
       ["Debugger::run_command", "Debugger::show_assembly_source", "Output::print_registers", "Output::print_integer", "print_help_message"],
       covers=1, cuts=False, tiers=["quick" if q else "thorough", "quick" if nm in ("c13_registers",) else "thorough"], bounds="one command; minimal output mode")

for n in (0, 1, 2, 3):
    H("C11", f"debugger::breakpoint::verif_h::c11_set_len{n}", BPF, covers=2, functions=["Breakpoints::insert", "Breakpoints::remove", "Breakpoints::get"],
      what=f"insert/remove/get on a sorted duplicate-free list of {n} symbolic addresses: set semantics, stays sorted/unique", bounds=f"list length {n}")
H("C11", "debugger::breakpoint::verif_h::c11_with_orig", BPF, covers=1, functions=["Breakpoints::with_orig"], what="origin added to every .break index", bounds="2 entries")
for nm, what in [("c11_break_add_n0", "break add, empty list"), ("c11_break_add_n1", "break add, 1 breakpoint"), ("c11_break_add_n2", "break add, 2 breakpoints"),
                 ("c11_break_remove_n1", "break remove, 1 breakpoint"), ("c11_break_remove_n2", "break remove, 2 breakpoints"), ("c11_break_list_n2", "break list")]:
    q = nm in ("c11_break_add_n1", "c11_break_remove_n2")
    DH(["C11", "C13"], nm, what + ": set semantics on user-space targets (absolute / ^offset / label+offset), refused elsewhere, list stays sorted/unique, machine untouched",
       ["Debugger::run_command", "Breakpoints::insert", "Breakpoints::remove", "Debugger::expect_userspace_address", "Debugger::resolve_location"],
       covers=1, tiers=["quick" if q else "thorough", "quick" if nm == "c11_break_add_n1" else "thorough"],
       allow_unsat=["target refused", "list changed", "user-space target"], bounds="one command")
H("C11", "debugger::verif_h::c11_marker_cleared_on_execute", DBG, covers=1, stubs=[FMT, SYM], functions=["Debugger::increment_instruction_count"],
  what="executing an instruction re-arms the breakpoint just paused at", bounds="complete")

DH(["C12"], "c12_reset", "reset restores every register, PC, CC and memory word (symbolic probe); saved machine untouched", ["Debugger::run_command", "RunState::clone"], covers=1)
for nm, what in [("c12_immutable_move", "move"), ("c12_immutable_goto", "goto"), ("c12_immutable_control", "step/step into/step out/continue/quit/exit"),
                 ("c12_immutable_break", "break add/remove"), ("c12_immutable_inspect", "print/registers/echo/break list")]:
    DH(["C12"], nm, f"one arbitrary {what} command: saved initial machine (registers, PC, CC, probe cell) untouched", ["Debugger::run_command"], covers=1, cuts=False,
       tiers=["quick" if nm in ("c12_immutable_move",) else "thorough"])
H("C17", "symbol::verif_h::c17_span_join", SYMF, covers=1, functions=["Span::join"], what="Span::join covers both spans minimally", bounds="offsets/lengths < 1000")

# ------------------------------------------------------------------ C14
INTF = "src/debugger/command/parse/integer.rs"
PARSEF = "src/debugger/command/parse/mod.rs"
STDINF = "src/debugger/command/reader/stdin.rs"
prop(
    "C14",
    "Integer::try_parse / try_parse_signed on every ASCII string of <= 4 bytes against a hand-written reference "
    "recogniser of the documented grammar; digit accumulation at the i32 boundary (10 decimal / 8 hex symbolic "
    "digits); as_u16/as_i16/as_u16_cast for every i32; Location / MemoryLocation / Register / PCOffset / Label "
    "parsing on every ASCII string <= 4 bytes; the naive type pre-check never rejects what the real parser accepts; "
    "argument tokenisation on lines <= 5 bytes; `step into` count default/clamp; scripts of 1 (thorough: 2, 3) "
    "bytes over {a, space, ';', newline} and scripts with a 2-byte character read through --command and through "
    "stdin yield the same command sequence; step/break subcommand tables in every letter case (thorough).",
    "longer strings; the main command-name table (18 entries, ~110 names: one entry against the whole table with a "
    "symbolic case mask did not finish in 25 min -- seed C14-A is therefore missed); invalid UTF-8 on stdin "
    "(assumed away: `expect(\"uh oh\")` is reachable with it -- observation in DESIGN.md); the effect of the parsed "
    "command is C13's domain.",
    ["command lines contain no ';' or newline (the readers split on them first: c14_transport_equivalence)"],
)
H("C14", "debugger::command::parse::integer::verif_h::c14_int_len4", INTF, covers=3, timeout=2400, mem_gb=20,
  functions=["parse_integer", "take_sign", "take_prefix", "Radix::parse_digit", "Integer::try_parse", "Integer::try_parse_signed"],
  what="every ASCII string <= 4 bytes x both sign modes vs reference recogniser", bounds="<= 4 ASCII bytes")
H("C14", "debugger::command::parse::integer::verif_h::c14_int_conversions", INTF, covers=2, functions=["Integer::as_u16", "Integer::as_i16", "Integer::as_u16_cast"],
  what="conversions for every i32", bounds="complete")
H("C14", "debugger::command::parse::integer::verif_h::c14_int_decimal_10_digits", INTF, covers=2, timeout=2400, functions=["parse_integer"],
  what="'#' + 10 symbolic decimal digits: value or too-large, never an overflow", bounds="exactly 10 digits")
for pp in ("C14", "C13"):
    H(pp, "debugger::command::parse::label::verif_h::c14_label_offset_hex4", "src/debugger/command/parse/label.rs", covers=2, timeout=2400, mem_gb=24,
      functions=["Label::try_parse", "Integer::try_parse_signed", "Integer::as_i16"],
      what="label a+xHHHH / a-xHHHH (symbolic sign and 4 hex digits): offset exactly the written value within [-32768, 32767], refused beyond -- never read modulo 2^16",
      bounds="one-letter name, 4 hex digits")
H("C14", "debugger::command::parse::integer::verif_h::c14_int_hex_8_digits", INTF, covers=1, timeout=2400, functions=["parse_integer"],
  what="'x' + 8 symbolic hex digits", bounds="exactly 8 digits")
H("C14", "debugger::command::parse::verif_h::c14_location_len4", PARSEF, covers=4, timeout=3000, mem_gb=24,
  functions=["Location::try_parse", "MemoryLocation::try_parse", "Register::try_parse", "PCOffset::try_parse", "Label::try_parse", "parse_integer"],
  what="every ASCII string <= 4 bytes as a location vs reference", bounds="<= 4 ASCII bytes")
H("C14", "debugger::command::parse::verif_h::c14_naive_never_rejects_valid", PARSEF, covers=2, timeout=3000, mem_gb=24,
  functions=["NaiveType::try_from", "Integer::try_parse", "MemoryLocation::try_parse"],
  what="naive pre-check vs real parsers on every ASCII string <= 4 bytes", bounds="<= 4 ASCII bytes")
H("C14", "debugger::command::parse::verif_h::c14_arguments_tokens", PARSEF, covers=1, timeout=2400,
  functions=["Arguments::next_token_str", "Arguments::next_argument_str", "Arguments::arg_count"], what="tokenisation of every line <= 5 ASCII bytes", bounds="<= 5 bytes")
H("C14", "debugger::command::parse::verif_h::c10_count_clamp", PARSEF, covers=2, stubs=[FMT], functions=["Arguments::next_positive_integer_or_default"],
  what="step into count: default 1, 0 -> 1", bounds="one decimal digit")
# (c14_transport_len3 timed out at 3000 s in the thorough validation run: not registered)
for nm, q in [("len1", True), ("len2", False), ("multibyte", True)]:
    H("C14", f"debugger::command::reader::stdin::verif_h::c14_transport_{nm}", STDINF, tier=("quick" if q else "thorough"), covers=1, timeout=3000, mem_gb=24,
      allow_unsat=[],
      stubs=["Stdin::read_byte -> next byte of the harness's byte queue (the OS read is the only thing replaced)"],
      functions=["Argument::read", "Stdin::read", "Stdin::read_char", "read_char_from_bytes", "Utf8Position::from"],
      what=f"same script ({nm}) via --command and via stdin: same command strings, same end",
      bounds="scripts of exactly 1/2 bytes over {a, space, ';', newline} (last byte symbolic, the others enumerated); e-acute next to one symbolic ASCII byte")

# ------------------------------------------------------------------ C20
TERMF = "src/debugger/command/reader/terminal.rs"
prop(
    "C20",
    "Bounded model checking with the strings and cursor positions *enumerated concretely inside the harness* (every "
    "string of <= 2 characters over {a, space, +, e-acute, grinning face} x every cursor in [0, "
    "#chars]) and a flag or state index left symbolic: word motions (find_word_next / find_word_back) return "
    "character indexes inside the line and equal a reference editor on a char vector (lenient on trailing blanks); "
    "count_chars_bytes agrees with the UTF-8 layout; insert/remove at a character index; one handle_key step per "
    "key kind from every editor state of the bound: cursor in [0, #chars], buffer/cursor/submission equal the "
    "reference editor.",
    "symbolic strings, cursors or typed characters (intractable: DESIGN.md 2.5); get_next_command (its `find` runs "
    "core's memchr: out of memory even for 2-byte lines); history navigation with a non-empty history; longer "
    "lines; terminal rendering.",
    ["char::is_whitespace / is_alphanumeric replaced by their exact answers on the 5-character alphabet"],
)
CH_STUB = "char::is_whitespace / char::is_alphanumeric -> exact answers on the alphabet"
for nm, q in [("len0", True), ("len1", True), ("len2_a", False), ("len2_space", True), ("len2_plus", False), ("len2_e_acute", True), ("len2_emoji", False)]:
    # (c20_motion_len3_space / _len3_a timed out at 3000 s in the thorough validation run: not registered)
    H("C20", f"debugger::command::reader::terminal::verif_h::c20_motion_{nm}", TERMF, tier=("quick" if q else "thorough"), covers=2, timeout=3000, mem_gb=30,
      stubs=[CH_STUB], functions=["find_word_next", "find_word_back", "count_chars_bytes"],
      what=f"word motions + index conversion on the strings '{nm}' (length / first character; the rest enumerated over the 5-character alphabet) x every cursor x both word modes (symbolic)",
      bounds="<= 2 characters")
for nm, q in [("len0_a", True), ("len1_a", True), ("len1_e_acute", False), ("len1_emoji", True)]:
    # (c20_edit_len2_emoji timed out at 3000 s in the thorough validation run: not registered)
    H("C20", f"debugger::command::reader::terminal::verif_h::c20_edit_{nm}", TERMF, tier=("quick" if q else "thorough"), covers=2, timeout=3000, mem_gb=30,
      functions=["insert_char_index", "remove_char_index", "count_chars_bytes"],
      what=f"insert/remove of the character in '{nm}' at a character index: (string, cursor) state picked by the solver among all strings of that length x every cursor",
      bounds="<= 1 character before the edit")
# (get_next_command's `find(';')` goes through core's memchr: 1.7 M symex steps for a 2-byte line, out of memory -- not registered)

# ------------------------------------------------------------------ C15
EVALF = "src/debugger/eval.rs"
EVAL_STUBS = [FMT, SYM, PRINT, "AsmParser::new_simple -> parser over the harness's token vector (lexing is C05)",
              "RunState::execute -> recorder (word, PC) that applies an arbitrary effect (new PC, one register) standing for the instruction's effect (C02)", EXIT,
              "error::parse_generic_unexpected / parse_lit_range / parse_eof -> contract stubs"]
prop(
    "C15",
    "The real eval_inner from an arbitrary machine at an arbitrary PC, with AsmParser::parse_simple replaced by its "
    "contract (an arbitrary statement of the harness's form, or 'not exactly one well-formed instruction') and "
    "RunState::execute by a recorder that applies an arbitrary effect: exactly one execute of exactly the ISA "
    "encoding of the statement, at the current PC, on the untouched machine, and afterwards the machine is exactly "
    "what the execution left (nothing is 'restored'); a label operand is encoded relative to the *current PC* "
    "(target = origin + label line - 1, distance modulo 2^16), refused when out of the field's reach or undefined; "
    "BR*, RTI, HALT, every trap vector outside x20..x27 and malformed text are refused with no effect and no "
    "exit/panic. The contract of parse_simple (first-token dispatch, missing/surplus/wrong-kind operands, "
    "non-instructions) is decided by c15_parse_simple_* (thorough) and c01_pe_* (operands -> statement).",
    "literal PC offsets and JSR/JSRR/CALL link values (left unspecified by the property); the text -> token step "
    "(C05); the effect of the executed word (C02).",
    ["label line L >= 1 and origin + L - 1 <= 0xFFFF"],
)
EVAL_STUBS2 = [FMT, SYM, PRINT, EXIT, "AsmParser::new_simple -> empty parser; AsmParser::parse_simple -> its contract: an arbitrary statement of the harness's form, or Err "
               "(decided by c01_pe_* and c15_parse_simple_*)",
               "RunState::execute -> recorder (word, PC) that applies an arbitrary effect (new PC, one register) standing for the instruction's effect (C02)"]
for nm, what, q in [
    ("c15_eval_alu_forms", "eval of ADD r,r,r / AND r,r,imm5 / NOT / LDR / STR statements (all registers, every in-range immediate/offset): executed once as its encoding, machine = pre-state + the execution's effect", True),
    ("c15_eval_ld_label", "eval LD r,label at any PC (label defined or not): field = label address - PC mod 2^16; refused beyond 9 bits / undefined", True),
    ("c15_eval_st_label", "eval ST r,label at any PC", False),
    ("c15_eval_lea_label", "eval LEA r,label at any PC", False),
    ("c15_eval_ldi_label", "eval LDI r,label at any PC", False),
    ("c15_eval_refused", "eval BR* / RTI / HALT / TRAP with every vector outside x20..x27 / malformed text: refused, nothing executes, machine untouched", True),
    ("c15_eval_traps_jumps", "eval RET / JMP r / JSRR r / TRAP x20..x27 except HALT: executed once as its encoding; the PC the execution sets survives eval", True),
]:
    H("C15", f"debugger::eval::verif_h::{nm}", EVALF, tier=("quick" if q else "thorough"), replayable=False, covers=2, stubs=EVAL_STUBS2, timeout=3000, mem_gb=24,
      functions=["eval_inner", "AsmLine::backpatch", "AsmLine::emit", "AsmLine::bit_offs"], what=what, bounds="one eval; label name 'ab'")
H("C15", "parser::verif_h::c15_pre_simple_keeps_everything", PAR, covers=1, stubs=[FMT, "Cursor::advance_real -> next token of the harness's queue (lexing is decided by the lexer harnesses)"], timeout=2400, mem_gb=24, functions=["preprocess_simple"],
  what="eval's token pass drops only comments/whitespace: `.end` and what follows stay visible to parse_simple's surplus check", bounds="4 tokens (label, blank, .end, label); symbolic offsets")
for nm, what in [("c15_parse_simple_ret", "parse_simple on `ret` with / without a surplus token of any kind"),
                 # (c15_parse_simple_not -- `not` with 0..3 operand tokens -- ran out of memory at 30 GB: not registered)
                 ("c15_parse_simple_not_an_instruction", "parse_simple on a non-instruction token / nothing: Err")]:
    H("C15", f"parser::verif_h::{nm}", PAR, tier="thorough", covers=2, stubs=PE_STUBS, timeout=5400, mem_gb=30,
      functions=["AsmParser::parse_simple", "AsmParser::parse_instr"], what=what, bounds="<= 4 tokens")

# ------------------------------------------------------------------ C05 / C18 / more C01, C11, C17
ASMF = "src/debugger/asm.rs"
FEATF = "src/features.rs"
KW = "Cursor::check_instruction / check_trap / check_directive -> any result they can produce (over-approximation; tables checked on concrete keywords)"
prop(
    "C05",
    "Assume-guarantee decomposition, bounded. Lexer: one harness per arm of advance_token and per text length (2 "
    "and 3 bytes): the arm's first character followed by every valid-UTF-8 continuation, plus 2- and 4-byte first "
    "characters: no panic/overflow, token and diagnostic spans inside the source (keyword classifiers "
    "over-approximated). Parser: parse_instr per mnemonic and per number of operand tokens (tokens of any kind: "
    "Byte, Breakpoint, .orig, strings ...), parse_trap, any line number; parse()'s own loop on 1 (thorough: 2) "
    "tokens of any kind from any starting line (so statement 65,535 is decided without unrolling) with "
    "parse_instr/parse_trap replaced by their contract. Display for TokenKind on every kind. bit_offs and literal "
    "PC offsets at the 16-bit extremes.",
    "miette's rendering; texts longer than 3 bytes as text (the token level takes over); preprocess()'s expansion "
    "loops (.blkw/.stringz); 'never loops forever' is only the unwinding assertion within these bounds.",
    ["token spans lie inside the source on ASCII text (what the lexer harnesses establish)",
     "Dir tokens other than .orig do not survive preprocessing"],
)
for arm in ("hex_arm_2", "hex_arm_3", "zero_arm_2", "zero_arm_3", "dec_arm_2", "dec_arm_3", "dir_arm_2", "dir_arm_3", "str_arm_2", "str_arm_3",
            "reg_arm_2", "reg_arm_3", "ident_arm_2", "ident_arm_3", "comment_arm_3", "ws_arm_3", "unknown_arm_2", "unknown_arm_3"):
    H("C05", f"lexer::verif_h::c05_lex_{arm}", LEX, tier=("quick" if arm in ("hex_arm_2", "hex_arm_3", "dec_arm_2", "str_arm_2", "unknown_arm_2", "reg_arm_2") else "thorough"),
      covers=1, stubs=[FMT, KW], timeout=3000, mem_gb=24,
      functions=["Cursor::advance_token", "Cursor::hex", "Cursor::dec", "Cursor::str", "Cursor::dir", "Cursor::ident", "Cursor::take_while", "Cursor::get_range", "error::lex_*"],
      what=f"lexer arm {arm}: the arm's first character + every valid-UTF-8 continuation making a text of exactly that many bytes: no panic, spans inside the source",
      bounds="text of exactly 2 / 3 bytes; first token")
for nm, q in [("2", True), ("2_tail", False), ("4", False), ("4_tail", True)]:
    H("C05", f"lexer::verif_h::c05_lex_multibyte_{nm}", LEX, tier=("quick" if q else "thorough"), covers=1, stubs=[FMT, KW], timeout=2400,
      functions=["Cursor::advance_token", "error::lex_unknown"], what=f"first character of {nm} bytes (tail = one symbolic ASCII byte): diagnostic, spans inside the source", bounds="<= 5 bytes")
H("C05", "lexer::verif_h::c05_display_all_kinds", LEX, covers=2, functions=["<TokenKind as Display>::fmt"],
  what="Display for every token kind a preprocessed stream can contain (incl. Byte, Breakpoint)", bounds="complete")
for nm, q in [("add_3", True), ("add_1", False), ("ldr_3", False), ("not_2", True), ("not_0", False), ("br_1", True), ("ld_2", False), ("jsr_1", False),
              ("call_1", True), ("jmp_1", False)]:
    H("C05", f"parser::verif_h::c05_parse_total_{nm}", PAR, tier=("quick" if q else "thorough"), covers=1, stubs=PE_STUBS, timeout=3000, mem_gb=30,
      functions=["AsmParser::parse_instr", "AsmParser::expect*"], what=f"parse_instr({nm}: mnemonic_number-of-operand-tokens) on operand tokens of any kind: total",
      bounds="exactly that many operand tokens of any kind; 8-byte ASCII source")
H("C05", "parser::verif_h::c05_parse_total_trap", PAR, covers=2, stubs=PE_STUBS, timeout=3000, mem_gb=24, functions=["AsmParser::parse_trap"],
  what="parse_trap (any trap kind) on <= 1 token of any kind", bounds="<= 1 operand token")
for n in (1,):
    H("C05", f"parser::verif_h::c05_parse_loop_total_{n}", PAR, tier=("quick" if n == 1 else "thorough"), covers=1, timeout=3000, mem_gb=30,
      stubs=PE_STUBS + ["AsmParser::parse_instr / parse_trap -> any result (their contract)", "error::parse_duplicate_label -> contract"],
      functions=["AsmParser::parse", "AsmParser::optional_label", "Air::add_stmt", "Air::set_orig", "Breakpoints::insert", "Label::insert"],
      what=f"parse() on exactly {n} token(s) of any kind from any starting line number: Ok or Err, never a panic (line counter, assert on .orig, span arithmetic)",
      bounds=f"{n} token(s)")
H("C05", "air::verif_h::c04_bit_offs", AIR, covers=3, stubs=[FMT], functions=["AsmLine::bit_offs"], what="bit_offs total at the i16 extremes", bounds="complete")

prop(
    "C18",
    "Lexer gate: the four stack mnemonics classify as instructions iff the flag is on, are refused with a "
    "diagnostic otherwise -- on the classifier with lowercase text for both flag values, and through the real "
    "advance_token on the lower-case / UPPER-CASE / Capitalised source spellings (thorough: all 2^n case variants) "
    "-- and every other keyword classifies identically for both flag values and with the feature cell uninitialised "
    "(any read of the flag panics), which shows those paths never consult it. VM gate: opcode 0xD with the flag off "
    "reaches exit(1) before anything executes; with it on executes per the documented encoding. Loading and a "
    "representative non-0xD handler run with the feature cell uninitialised. `step out` follows the flag as "
    "implemented (thorough). Features::from_str on the documented spellings.",
    "the -f command-line plumbing in main.rs.",
    [],
)
H("C18", "lexer::verif_h::c18_gate_lexer", LEX, covers=2, stubs=[FMT], functions=["Cursor::check_instruction", "features::stack", "error::lex_stack_extension_not_enabled"],
  what="push/pop/call/rets gated by the flag (both values); other keywords unaffected", bounds="concrete keywords, symbolic flag")
H("C18", "lexer::verif_h::c18_flag_not_consulted_elsewhere", LEX, covers=1, stubs=[FMT], functions=["Cursor::check_instruction", "Cursor::check_trap"],
  what="feature cell uninitialised: non-stack keywords classify without consulting the flag", bounds="concrete keywords")
H("C18", "runtime::verif_h::c02_stack_off_exits", RT, uf=True, stubs=[EXIT], covers=0, functions=["RunState::stack", "features::stack"],
  what="opcode 0xD with the extension off: exit(1) before anything executes", bounds="complete")
H("C18", "runtime::verif_h::c02_stack_off_exit_reached", RT, uf=True, stubs=[EXIT], covers=1, functions=["RunState::stack"], what="reachability twin: exit(1) is reached", bounds="complete")
H("C18", "runtime::verif_h::c02_stack_on", RT, uf=True, covers=2, timeout=900, functions=["RunState::stack", "RunState::push_val", "RunState::pop_val"],
  what="flag on: every 0xD word executes as PUSH/POP/CALL/RETS", bounds="one instruction")
H("C18", "runtime::verif_h::c02_add", RT, uf=True, covers=2, timeout=900, functions=["RunState::add"],
  what="feature cell uninitialised: a non-0xD handler runs without consulting the flag (one representative; all C02 op harnesses run that way)", bounds="one instruction")
H("C18", "features::verif_h::c18_fromstr_fixed", FEATF, covers=1, stubs=[FMT], functions=["Features::from_str"], what="'' / 'stack' / 'stack,stack' / unknown word", bounds="4 concrete strings")

H("C01", "lexer::verif_h::c01_keywords_instructions", LEX, covers=1, stubs=[FMT], timeout=2400,
  functions=["Cursor::check_instruction", "Cursor::check_trap", "Cursor::check_directive"], what="all 45 keywords (lowercase) -> documented token kinds; non-keywords -> Label", bounds="concrete keywords")
for nm, q in [("hex_2", True), ("hex_3", False), ("hex_neg_2", False), ("dec_1", False), ("dec_3", False), ("dec_neg_2", True)]:
    for pp in ("C01", "C04"):
        H(pp, f"lexer::verif_h::c01_literal_{nm}", LEX, tier=("quick" if q and pp == "C01" else "thorough"), covers=2, stubs=[FMT, KW], timeout=2400, mem_gb=20,
          functions=["Cursor::advance_token", "Cursor::hex", "Cursor::dec"],
          what=f"literal spelling '{nm}' (prefix, sign, number of symbolic digits): token value == numeric value (two's complement), token spans the literal", bounds="<= 3 digits")
SPAN_STUBS = PE_STUBS + ["AsmParser::parse_instr -> its contract towards parse(): 'operands consumed up to byte E' / 'no operand'"]
for k in (0, 2):
    H("C11", f"parser::verif_h::c11_break_directive_{k}", PAR, tier=("quick" if k == 2 else "thorough"), covers=1, timeout=2400, mem_gb=24,
      stubs=PE_STUBS + ["AsmParser::parse_instr / parse_trap -> any result (not reached)"],
      functions=["AsmParser::parse", "Breakpoints::insert"], what=f".break after {k} statements marks statement index {k}, flagged predefined, adds no word", bounds="one token")
for nm, props in [("c17_span_statement", ["C17"])]:
    for pp in props:
        H(pp, f"parser::verif_h::{nm}", PAR, covers=2, stubs=SPAN_STUBS, timeout=2400, mem_gb=24,
          functions=["AsmParser::parse", "Air::add_stmt", "Breakpoints::insert"],
          what="statement span = first token .. end of last consumed operand (or the first token alone), for arbitrary offsets, also right after an operand-ful "
               "statement; .break marks the next statement's index, no word, predefined", bounds="one statement; offsets < 2000")
H("C17", "parser::verif_h::c17_tok_end_recorded", PAR, covers=2, stubs=PE_STUBS, timeout=1500, functions=["AsmParser::expect", "AsmParser::expect_where", "AsmParser::expect_reg"],
  what="expect / expect_reg record the end of the consumed operand", bounds="one token")
for n in (0, 1, 3):
    H("C17", f"debugger::asm::verif_h::c17_source_lookup_{n}", ASMF, tier=("quick" if n == 1 else "thorough"), covers=2, timeout=2400, mem_gb=20,
      allow_unsat=["idx < 0"] if False else [],
      functions=["AsmSource::get_source_statement", "AsmSource::get_single_line"],
      what=f"address -> statement (address - origin) or nothing, {n} statements; shown text = statement span", bounds=f"{n} statements; 8-byte source")
    H("C09", f"debugger::asm::verif_h::c17_source_lookup_{n}", ASMF, tier=("quick" if n == 1 else "thorough"), covers=2, timeout=2400, mem_gb=20,
      functions=["AsmSource::get_source_statement"], what="`assembly` on any address never panics", bounds=f"{n} statements")

NAMEF = "src/debugger/command/parse/name.rs"
# (the main command table -- 18 entries, ~110 names -- is out of reach: one entry's names against the whole table with a
#  symbolic case mask did not finish in 25 min; harnesses c14_names_entry_NN exist but are not registered.
#  What is decided instead: name_matches is case-insensitive on each list of the table, c14_names_lists_case_insensitive_*)
H("C14", "debugger::command::parse::name::verif_h::c14_names_subcommands", NAMEF, tier="thorough", covers=0, timeout=3000, mem_gb=24,
  functions=["find_name_match", "name_matches", "SUBCOMMANDS_STEP", "SUBCOMMANDS_BREAK"], what="step / break subcommand tables, symbolic case mask", bounds="the tables as compiled")

for nm, wh in (("c14_names_lists_case_insensitive_lo", "entries 0..9"), ("c14_names_lists_case_insensitive_hi", "entries 9..18")):
    H("C14", f"debugger::command::parse::name::verif_h::{nm}", NAMEF, covers=1, timeout=2400, mem_gb=24,
      functions=["name_matches", "COMMANDS"], what="every word of the main command table (names, aliases, misspellings), in every letter case (symbolic case mask), "
      "is matched by name_matches against the list it is written in", bounds=f"the table as compiled, {wh}")
# (c14_names_table_unambiguous -- the whole table through find_name_match, written spelling only -- timed out at 2400 s: not registered)

RUNLOOP_STUBS = [FMT, SYM, PRINT, EXIT, "Debugger::next_action -> its contract (Proceed only from an executable PC; decided by c10_running_* / c10_cmd_*)",
                 "RunState::execute -> probe that checks (instr == mem[PC], PC+1) and ends the path"]
for pp in ("C16", "C09", "C10"):
    H(pp, "runtime::verif_h::c16_run_loop_proceed_executes", RT, uf=True, covers=1, stubs=RUNLOOP_STUBS, timeout=3000, mem_gb=24,
      allow_unsat=["run() returned"],
      functions=["RunEnvironment::run (debugger branch)", "SignificantInstr::try_from", "RunState::check_pc_bounds", "Debugger::increment_instruction_count"],
      what="one iteration of the real run loop with a debugger attached, next_action answering Proceed per its contract: the loop executes exactly mem[PC] "
           "and does not come back to the debugger without executing (no spinning)", bounds="one iteration from an arbitrary machine")
for pp in ("C09", "C16"):
    H(pp, "runtime::verif_h::c09_run_loop_exit_program", RT, uf=True, covers=1, stubs=RUNLOOP_STUBS, timeout=3000, mem_gb=24, tier="thorough",
      allow_unsat=["in-bounds instruction"],
      functions=["RunEnvironment::run (debugger branch)"], what="next_action answering ExitProgram: run() returns with the machine untouched", bounds="one iteration")

H("C17", "debugger::asm::verif_h::c17_show_single_line_multibyte", ASMF, covers=1, timeout=2400, stubs=[FMT, "Output::print_fmt -> capture sink (both channels)"],
  functions=["AsmSource::show_single_line", "AsmSource::get_source_statement"], what="assembly <addr> (minimal) prints exactly the statement's bytes when multi-byte characters precede it",
  bounds="fixed 12-byte source with a 2-byte and a 4-byte character; 2 statements; symbolic origin")
for w in ("push", "pop", "call", "rets"):
    H("C18", f"lexer::verif_h::c18_gate_case_{w}", LEX, tier=("quick" if w in ("push", "rets") else "thorough"), covers=2, stubs=[FMT], timeout=3000, mem_gb=24,
      functions=["Cursor::advance_token", "Cursor::ident", "Cursor::check_instruction", "features::stack"],
      what=f"'{w}' / upper case / capitalised as source text: accepted iff the flag is on (flag symbolic)", bounds="one token; 3 letter-case variants")
    H("C18", f"lexer::verif_h::c18_gate_case_{w}_all", LEX, tier="thorough", covers=2, stubs=[FMT], timeout=5400, mem_gb=30,
      functions=["Cursor::advance_token", "Cursor::ident", "Cursor::check_instruction", "features::stack"],
      what=f"'{w}' in every letter case (all 2^n variants enumerated) as source text: accepted iff the flag is on", bounds="one token")
H("C18", "runtime::verif_h::c03_load_place_3000_2", RT, covers=2, stubs=[EXIT], functions=["RunEnvironment::from_raw"], timeout=1500,
  what="loading with the feature cell uninitialised: the initial machine (R7 = 0xFDFF ...) does not consult the flag", bounds="origin 0x3000, 2 words")
H("C19", "symbol::verif_h::c19_sequence_after_reset", SYMF, covers=2, stubs=[FMT, SYM], functions=["reset_state", "Label::insert", "Label::filled", "Label::try_fill"],
  what="define/resolve ab; reset; define ab elsewhere (or not): resolution follows the second source only", bounds="label 'ab', symbolic lines")
H("C05", "parser::verif_h::c01_pe_br_lit", PAR, covers=1, stubs=PE_STUBS, timeout=1500, functions=PE_FUNCS,
  what="BR #lit at every line number incl. 65535: no overflow", bounds="one statement")
H("C09", "debugger::command::reader::stdin::verif_h::c14_transport_multibyte", STDINF, covers=1, timeout=3000, mem_gb=24,
  stubs=["Stdin::read_byte -> next byte of the harness's byte queue"], functions=["Argument::read", "Stdin::read"],
  what="a script with a multi-byte character reaches the debugger intact through both transports", bounds="3 bytes")

for nm, q in [("char_len1", True), ("backspace_len2", False), ("delete_len2", False), ("left_right_len1", False), ("right_len1", False),
              ("ctrl_left_len2", False), ("ctrl_right_len1", True), ("ctrl_right_len2", False), ("up_len1", False), ("down_len1", False), ("enter_len1", True), ("enter_len2", False)]:
    H("C20", f"debugger::command::reader::terminal::verif_h::c20_key_{nm}", TERMF, tier=("quick" if q else "thorough"), covers=1, timeout=3000, mem_gb=24,
      stubs=["char::is_whitespace / char::is_alphanumeric -> exact answers on the alphabet"],
      functions=["Terminal::handle_key", "Terminal::update_next", "Terminal::get_current", "find_word_next", "find_word_back", "insert_char_index", "remove_char_index"],
      what=f"one handle_key step ({nm}) from every editor state of the bound: cursor in [0,#chars], buffer/cursor/submission equal the reference editor",
      bounds="buffers of exactly 1 or 2 characters over the 5-character alphabet (enumerated), every cursor, empty history; typed character symbolic")

TRAP_STUBS = [FMT, "runtime::read_char -> next element of the harness's input queue (ASCII or U+FFFD), exit(1) at end of input",
              "Output::print_fmt -> capture sink (program output as code points)", EXIT]
for nm, what, props, nc in [
    ("c03_trap_getc", "GETC: R0 = the next input character, exactly one consumed, nothing printed, nothing else changes", ["C03", "C02"], 2),
    ("c03_trap_out", "OUT: prints R0[7:0] as one character, nothing changes", ["C03", "C02"], 2),
    ("c03_trap_in", "IN: one character consumed and echoed, R0 set", ["C03"], 2),
    ("c03_trap_getc_eof", "GETC at end of input: exit(1)", ["C03"], 1),
    ("c03_trap_in_eof", "IN at end of input: exit(1)", ["C03"], 1),
    ("c03_trap_halt", "HALT: PC = 0xFFFF, nothing else changes", ["C03", "C02"], 1),
    ("c03_trap_putn", "PUTN: R0 as signed decimal (length, sign, first and last digit), machine untouched", ["C03"], 2),
    ("c03_trap_puts", "PUTS: characters up to the first zero word", ["C03"], 2),
    ("c03_trap_putsp", "PUTSP: bytes up to the first zero byte", ["C03"], 1),
    ("c02_trap_unknown_vector", "every trap vector outside x20..x27: exit(0xEE), nothing executed, printed or read", ["C02", "C03"], 1),
    ("c03_trap_reg", "REG: prints, machine untouched", ["C03"], 1),
]:
    for pp in props:
        H(pp, f"runtime::verif_h::{nm}", RT, uf=True, covers=nc, stubs=TRAP_STUBS, timeout=2400, mem_gb=20,
          tier=("thorough" if nm in ("c03_trap_putsp", "c03_trap_in_eof") else "quick"),
          functions=["RunState::trap", "Output::print", "Output::print_decimal", "Output::print_registers"], what=what,
          bounds="strings <= 3 words (PUTS) / 2 words (PUTSP), not running through 0xFFFF; input queue <= 2 characters")

# negative controls (thorough tier): harnesses with a deliberately wrong oracle that MUST fail
H("C02", "runtime::verif_h::c02_control_wrong_oracle_ldr", RT, tier="thorough", uf=True, mutant=True, timeout=1500,
  functions=["RunState::ldr"], what="negative control: LDR vs an oracle with the offset off by one -- must be refuted", bounds="one instruction")
H("C01", "air::verif_h::c01_control_wrong_oracle_offs6", AIR, tier="thorough", mutant=True, stubs=[FMT],
  functions=["AsmLine::emit"], what="negative control: LDR emission vs an oracle without the 6-bit mask -- must be refuted", bounds="complete")
H("C04", "air::verif_h::c01_control_wrong_oracle_offs6", AIR, tier="thorough", mutant=True, stubs=[FMT],
  functions=["AsmLine::emit"], what="negative control: unmasked-offset oracle must be refuted", bounds="complete")

PRE_STUBS = [FMT, "Cursor::advance_real -> next token of the harness's queue (lexing is decided by the lexer harnesses)",
             "core::slice::memchr::memchr (behind str::find) -> plain byte loop with the same contract",
             "error::preproc_bad_lit / preproc_no_str -> contract (span inside the source)"]
for nm, what, props, q in [
    ("c01_pre_fill", ".fill <literal> (every 16-bit value, Dec/Hex): one data word with that value, span = directive + literal", ["C01"], True),
    ("c01_pre_blkw_hex0", ".blkw x0: no word", ["C01"], False),
    ("c01_pre_blkw_hex2", ".blkw x2: two zero words", ["C01"], True),
    ("c01_pre_blkw_dec3", ".blkw #3: three zero words", ["C01"], False),
    ("c01_pre_break_end", ".break -> Breakpoint token, .end stops, comments vanish", ["C01", "C11"], False),
    ("c05_pre_directive_wrong_operand", ".fill/.blkw/.stringz followed by a token of any non-literal kind or by nothing: diagnostic, no panic", ["C05"], True),
]:
    for pp in props:
        H(pp, f"parser::verif_h::{nm}", PAR, tier=("quick" if q else "thorough"), covers=1, stubs=PRE_STUBS, timeout=(5400 if "stringz" in nm else 2400), mem_gb=30,
          functions=["preprocess", "unescape", "Span::join", "Cursor::get_range"], what=what, bounds="one directive")
for nm, what in [("c04_litrange_dec5", "#ddddd"), ("c04_litrange_dec_neg5", "#-ddddd"), ("c04_litrange_hex5", "xHHHHH"), ("c04_litrange_hex_neg4", "x-HHHH")]:
    H("C04", f"lexer::verif_h::{nm}", LEX, tier="thorough", covers=2, stubs=[FMT, KW], timeout=3000, mem_gb=24, functions=["Cursor::advance_token", "Cursor::hex", "Cursor::dec"],
      what=f"literal spelling {what} with symbolic digits: a literal iff the value is within [-32768, 65535]; value modulo 2^16", bounds="exactly that many digits")

H("C05", "symbol::verif_h::c17_span_join", SYMF, covers=1, functions=["Span::join"], what="Span::join never underflows, whatever the order of the two spans", bounds="offsets/lengths < 1000")
for n in (1, 2):
    H("C10", f"debugger::breakpoint::verif_h::c11_set_len{n}", BPF, covers=2, functions=["Breakpoints::insert", "Breakpoints::remove", "Breakpoints::get"],
      what=f"break add/remove set semantics on {n} breakpoint(s) (a removed breakpoint never pauses; adding twice leaves one)", bounds=f"list length {n}")
H("C01", "lexer::verif_h::c01_separator_set", LEX, covers=2, functions=["lexer::is_whitespace", "lexer::is_reg_num", "lexer::is_id"],
  what="separator / register-digit / identifier character classes for every char", bounds="complete")
# (c01_separator_before_register -- <separator><r|R><0-7> through advance_real -- passed 2600 s and 18 GB in the thorough validation run: not registered)
for nm, what in [("c01_unescape_plain", "no escape"), ("c01_unescape_newline", "backslash-n -> LF"),
                 ("c01_unescape_backslash_n", "escaped backslash followed by n -> backslash, n"),
                 ("c01_unescape_nonascii_escape", "2-byte character before an escape: no slicing inside the character"),
                 ("c01_unescape_quote_tab", "escaped quote and backslash-t")]:
    for pp in (("C01", "C05") if "nonascii" in nm else ("C01",)):
        H(pp, f"parser::verif_h::{nm}", PAR, tier="quick", covers=1, timeout=1500, mem_gb=24,
          stubs=["core::slice::memchr::memchr (behind str::find) -> plain byte loop with the same contract"], functions=["unescape"],
          what=f".stringz escape processing on a concrete literal: {what}", bounds="concrete literal of <= 4 bytes")
