//! Verification shim: association-list model of the `FxHashMap` subset lace
//! uses (`default/insert/get/clear/keys/iter/len`).  hashbrown's SIMD group
//! probing is out of reach for CBMC; what is under test is lace's *use* of the
//! map (key/value discipline), not the hash table.
use std::borrow::Borrow;

pub struct FxHashMap<K, V> {
    pub entries: Vec<(K, V)>,
}

impl<K, V> Default for FxHashMap<K, V> {
    fn default() -> Self {
        FxHashMap { entries: Vec::new() }
    }
}

impl<K: Eq, V> FxHashMap<K, V> {
    pub fn insert(&mut self, k: K, v: V) -> Option<V> {
        let mut i = 0;
        while i < self.entries.len() {
            if self.entries[i].0 == k {
                let old = std::mem::replace(&mut self.entries[i].1, v);
                return Some(old);
            }
            i += 1;
        }
        self.entries.push((k, v));
        None
    }
    pub fn get<Q: ?Sized>(&self, k: &Q) -> Option<&V>
    where
        K: Borrow<Q>,
        Q: Eq,
    {
        let mut i = 0;
        while i < self.entries.len() {
            if self.entries[i].0.borrow() == k {
                return Some(&self.entries[i].1);
            }
            i += 1;
        }
        None
    }
    pub fn contains_key<Q: ?Sized>(&self, k: &Q) -> bool
    where
        K: Borrow<Q>,
        Q: Eq,
    {
        self.get(k).is_some()
    }
    pub fn clear(&mut self) {
        self.entries.clear();
    }
    pub fn remove<Q: ?Sized>(&mut self, k: &Q) -> Option<V>
    where
        K: Borrow<Q>,
        Q: Eq,
    {
        let mut i = 0;
        while i < self.entries.len() {
            if self.entries[i].0.borrow() == k {
                return Some(self.entries.remove(i).1);
            }
            i += 1;
        }
        None
    }
    /// the real map's capacity is whatever the allocator and earlier growth left behind (`clear()` keeps it):
    /// under Kani it is an arbitrary value >= len, so code that branches on it is explored on both sides
    pub fn capacity(&self) -> usize {
        #[cfg(kani)]
        {
            let c: usize = kani::any();
            kani::assume(c >= self.entries.len());
            return c;
        }
        #[cfg(not(kani))]
        self.entries.capacity()
    }
    // (capacity is abstract under Kani, see `capacity`: shrinking changes no entry and is a no-op there)
    pub fn shrink_to(&mut self, min_capacity: usize) {
        #[cfg(not(kani))]
        self.entries.shrink_to(min_capacity);
        let _ = min_capacity;
    }
    pub fn shrink_to_fit(&mut self) {
        #[cfg(not(kani))]
        self.entries.shrink_to_fit();
    }
    pub fn values(&self) -> impl Iterator<Item = &V> {
        self.entries.iter().map(|e| &e.1)
    }
    pub fn get_mut<Q: ?Sized>(&mut self, k: &Q) -> Option<&mut V>
    where
        K: Borrow<Q>,
        Q: Eq,
    {
        let mut i = 0;
        while i < self.entries.len() {
            if self.entries[i].0.borrow() == k {
                return Some(&mut self.entries[i].1);
            }
            i += 1;
        }
        None
    }
    pub fn len(&self) -> usize {
        self.entries.len()
    }
    pub fn is_empty(&self) -> bool {
        self.entries.is_empty()
    }
    pub fn keys(&self) -> impl Iterator<Item = &K> {
        self.entries.iter().map(|e| &e.0)
    }
    pub fn iter(&self) -> Iter<'_, K, V> {
        Iter { inner: self.entries.iter() }
    }
}

pub struct Iter<'a, K, V> {
    inner: std::slice::Iter<'a, (K, V)>,
}
impl<'a, K, V> Iterator for Iter<'a, K, V> {
    type Item = (&'a K, &'a V);
    fn next(&mut self) -> Option<Self::Item> {
        self.inner.next().map(|e| (&e.0, &e.1))
    }
}
impl<'a, K: Eq, V> IntoIterator for &'a FxHashMap<K, V> {
    type Item = (&'a K, &'a V);
    type IntoIter = Iter<'a, K, V>;
    fn into_iter(self) -> Self::IntoIter {
        self.iter()
    }
}
impl<'a, K: Eq, V> IntoIterator for &'a mut FxHashMap<K, V> {
    type Item = (&'a K, &'a V);
    type IntoIter = Iter<'a, K, V>;
    fn into_iter(self) -> Self::IntoIter {
        self.iter()
    }
}
