//! Verification shim for the subset of `miette` that lace's *library* uses.
//!
//! Why: constructing a real `miette::Report` crashes kani-compiler 0.68 and the
//! real `backtrace` dependency does not build under Kani.  What lace does with
//! the crate (build a report from a message, severity, code, help, labels and a
//! source, return it through `Result`) is kept; miette's *rendering* is not
//! modelled and is outside every claim.  The fields stay public so harnesses
//! can assert that labels point inside the source.
use std::fmt;

#[derive(Clone, Copy, PartialEq, Eq, Debug)]
pub enum Severity {
    Advice,
    Warning,
    Error,
}

#[derive(Clone, Copy, PartialEq, Eq, Debug)]
pub struct SourceOffset(pub usize);
impl From<usize> for SourceOffset {
    fn from(v: usize) -> Self {
        SourceOffset(v)
    }
}
impl SourceOffset {
    pub fn offset(&self) -> usize {
        self.0
    }
}

#[derive(Clone, Copy, PartialEq, Eq, Debug)]
pub struct SourceSpan {
    pub offset: usize,
    pub length: usize,
}
impl SourceSpan {
    pub fn new(start: SourceOffset, length: usize) -> Self {
        SourceSpan { offset: start.0, length }
    }
    pub fn offset(&self) -> usize {
        self.offset
    }
    pub fn len(&self) -> usize {
        self.length
    }
    pub fn is_empty(&self) -> bool {
        self.length == 0
    }
}
impl From<(usize, usize)> for SourceSpan {
    fn from(v: (usize, usize)) -> Self {
        SourceSpan { offset: v.0, length: v.1 }
    }
}
impl From<std::ops::Range<usize>> for SourceSpan {
    fn from(v: std::ops::Range<usize>) -> Self {
        SourceSpan { offset: v.start, length: v.end.wrapping_sub(v.start) }
    }
}
impl From<usize> for SourceSpan {
    fn from(v: usize) -> Self {
        SourceSpan { offset: v, length: 0 }
    }
}

#[derive(Clone, Debug)]
pub struct LabeledSpan {
    pub span: SourceSpan,
    pub has_label: bool,
}
impl LabeledSpan {
    pub fn at(span: impl Into<SourceSpan>, label: impl Into<String>) -> Self {
        let _l: String = label.into();
        LabeledSpan { span: span.into(), has_label: true }
    }
    pub fn at_offset(offset: usize, label: impl Into<String>) -> Self {
        let _l: String = label.into();
        LabeledSpan { span: SourceSpan { offset, length: 0 }, has_label: true }
    }
    pub fn underline(span: impl Into<SourceSpan>) -> Self {
        LabeledSpan { span: span.into(), has_label: false }
    }
    pub fn offset(&self) -> usize {
        self.span.offset
    }
    pub fn len(&self) -> usize {
        self.span.length
    }
    pub fn inner(&self) -> &SourceSpan {
        &self.span
    }
}

/// The diagnostic.  No heap-allocated trait object, no backtrace.
pub struct Report {
    pub severity: Option<Severity>,
    pub has_code: bool,
    pub has_help: bool,
    pub labels: Vec<LabeledSpan>,
    /// pointer + length of the attached source (`&'static str` in lace)
    pub src: Option<&'static str>,
}

pub struct ReportBuilder {
    pub r: Report,
}
impl ReportBuilder {
    pub fn new(_msg: String) -> Self {
        ReportBuilder {
            r: Report { severity: None, has_code: false, has_help: false, labels: Vec::new(), src: None },
        }
    }
    pub fn severity(&mut self, s: Severity) {
        self.r.severity = Some(s);
    }
    pub fn code<T: fmt::Display>(&mut self, _c: T) {
        self.r.has_code = true;
    }
    pub fn help<T: fmt::Display>(&mut self, _h: T) {
        self.r.has_help = true;
    }
    pub fn url<T: fmt::Display>(&mut self, _h: T) {}
    pub fn labels(&mut self, l: Vec<LabeledSpan>) {
        self.r.labels = l;
    }
    pub fn finish(self) -> Report {
        self.r
    }
}

/// Source-code carrier: lace only ever attaches `&'static str`.
pub trait IntoStaticSrc {
    fn into_static_src(self) -> Option<&'static str>;
}
impl IntoStaticSrc for &'static str {
    fn into_static_src(self) -> Option<&'static str> {
        Some(self)
    }
}
impl IntoStaticSrc for String {
    fn into_static_src(self) -> Option<&'static str> {
        None
    }
}

impl Report {
    pub fn msg<T: fmt::Display>(_m: T) -> Self {
        ReportBuilder::new(String::new()).finish()
    }
    pub fn with_source_code(mut self, src: impl IntoStaticSrc) -> Self {
        self.src = src.into_static_src();
        self
    }
    pub fn severity(&self) -> Option<Severity> {
        self.severity
    }
}
impl fmt::Debug for Report {
    fn fmt(&self, f: &mut fmt::Formatter<'_>) -> fmt::Result {
        f.write_str("<report>")
    }
}
impl fmt::Display for Report {
    fn fmt(&self, f: &mut fmt::Formatter<'_>) -> fmt::Result {
        f.write_str("<report>")
    }
}

pub type Error = Report;
pub type Result<T, E = Report> = core::result::Result<T, E>;

pub trait IntoDiagnostic<T, E> {
    fn into_diagnostic(self) -> Result<T, Report>;
}
impl<T, E: fmt::Display> IntoDiagnostic<T, E> for core::result::Result<T, E> {
    fn into_diagnostic(self) -> Result<T, Report> {
        self.map_err(|e| Report::msg(e))
    }
}

#[macro_export]
macro_rules! miette {
    ($($key:ident = $value:expr,)* $fmt:literal $($arg:tt)*) => {{
        #[allow(unused_mut)]
        let mut b = $crate::ReportBuilder::new(::std::format!($fmt $($arg)*));
        $( b.$key($value); )*
        b.finish()
    }};
}

#[macro_export]
macro_rules! bail {
    ($($key:ident = $value:expr,)* $fmt:literal $($arg:tt)*) => {
        return ::core::result::Result::Err($crate::miette!($($key = $value,)* $fmt $($arg)*))
    };
}
